#!/bin/bash
# Builds /verif/.venv offline: a venv of /venv/bin/python that sees /venv's site-packages (the
# repository's own dependencies) plus z3-solver from the local wheelhouse.  Idempotent.
set -e
cd "$(dirname "$0")"
V=.venv
if [ -x $V/bin/python ] && $V/bin/python -c "import z3, numpy, sortedcontainers, pyannote.core" >/dev/null 2>&1; then
  exit 0
fi
rm -rf $V
/venv/bin/python -m venv $V
SP=$($V/bin/python -c "import sysconfig; print(sysconfig.get_paths()['purelib'])")
echo "import site; site.addsitedir('/venv/lib/python3.12/site-packages')" > $SP/_overlay.pth
PIP_NO_INDEX=1 $V/bin/python -m pip install --quiet --no-index --find-links /opt/veriftools/wheels z3-solver
$V/bin/python -c "import z3, numpy, sortedcontainers, pyannote.core; print('verif venv ok, z3', z3.get_version_string())"
