"""H_align -- the shared alignment-pipeline harness (C01, C02, C08, C11, parts of C03/C09).

Runs the real get_best_alignment / get_best_soft_alignment: real _build_arrays_continuum, real
kernel _get_all_valid_alignments, real build_A, the cvxpy stub capturing the repository's
objective / constraints / solver choice, real thresholding np.where(x.value > 0.9), real decoding
loop, real Alignment construction -- on symbolic pair values (abstract dissimilarity) or on
symbolic coordinates / parameters with the repository's own dissimilarity classes.
"""
from fractions import Fraction

import z3

from symx import core, cpstub
from symx.core import Obl, SymNum, SymBool, lift, lb, mval
from . import common
from .common import ANN


DECLARED = ["a", "b", "c", "d"]
DECLARED_M = [[0, 0.25, 1, 2.25], [0.25, 0, 0.5, 1.25], [1, 0.5, 0, 0.75], [2.25, 1.25, 0.75, 0]]


def setup(ns, ctx, cfg):
    """Builds continuum + dissimilarity for cfg; returns a dict of everything the obligations need."""
    sizes = tuple(cfg["sizes"])
    n = len(sizes)
    kind = cfg.get("dissim", "abstract")
    st = common.set_backend(cfg.get("backend", "cbc"))
    ns.co.cp = cpstub
    de = ctx.fresh("de")
    ctx.solver.add(de.e > 0)
    inputs = [de]
    E = dict(sizes=sizes, n=n, de=de, kind=kind, state=st)
    # provisional realiser: an exception while the inputs are being built (e.g. the dissimilarity's own self-check) is replayed too
    ctx.notes["realize"] = lambda m: dict(kind="pipeline", construct_only=True, sizes=list(sizes), mode=cfg.get("mode", "best"), dissim=kind,
                                          backend=cfg.get("backend", "cbc"), de=common.frs(mval(m, de)), alpha="1", beta="1",
                                          units=[[ANN[a], str(10 * j + a), str(10 * j + a + 5), "xy"[j % 2]] for a in range(n) for j in range(sizes[a])],
                                          annotators=[ANN[a] for a in range(n)], pairs={})
    if kind == "abstract":
        c, info = common.build_continuum(ns, ctx, sizes, coords="fixed", labels="unique")
        D, table = common.make_abstract_dissim(ns, ctx, de, c.categories)
        E["table"] = table

        def pair(x, y):
            return table.val(info[x]["uid"], info[y]["uid"])
    else:
        labels = cfg.get("labels", "xy")
        nunits = sum(sizes)
        if labels == "none":
            labs = [None] * nunits
        elif labels == "xy":
            labs = [("x", "y")[(k * 2 + k // 2) % 2] for k in range(nunits)]
        elif labels == "mixed":
            labs = [None if k % 2 == 0 else "x" for k in range(nunits)]
        elif labels == "same":
            labs = ["x"] * nunits
        elif labels == "empty-string":
            labs = [("", None, "x")[k % 3] for k in range(nunits)]
        elif labels == "declared-bd":
            labs = [("b", "d", "d", "b")[k % 4] for k in range(nunits)]
        else:
            labs = list(labels)
        c, info = common.build_continuum(ns, ctx, sizes, coords=cfg.get("coords", "sym"), labels=labs,
                                         min_dur=cfg.get("min_dur"), ordered=("weak" if cfg.get("ties") else True))
        for v in info.values():
            for k in ("start", "end"):
                if isinstance(v[k], SymNum) and not z3.is_rational_value(v[k].e):
                    inputs.append(v[k])
        if kind == "positional":
            D = ns.ds.PositionalSporadicDissimilarity(delta_empty=de)

            def pair(x, y):
                return common.pos_formula((info[x]["start"], info[x]["end"]), (info[y]["start"], info[y]["end"]), de)
        elif kind == "combined":
            alpha, beta = ctx.fresh("alpha", lo=0), ctx.fresh("beta", lo=0)
            inputs += [alpha, beta]
            E["alpha"], E["beta"] = alpha, beta
            D = ns.ds.CombinedCategoricalDissimilarity(alpha=alpha, beta=beta, delta_empty=de)

            def pair(x, y):
                p = common.pos_formula((info[x]["start"], info[x]["end"]), (info[y]["start"], info[y]["end"]), de)
                cat = de if info[x]["label"] != info[y]["label"] else 0
                return alpha * p + beta * cat
        elif kind == "combined-declared":
            # a categorical component that DECLARES more categories (a..d) than the continuum uses (b, d): the value of a pair is
            # the declared matrix entry of the two labels, whatever the continuum happens to use
            from sortedcontainers import SortedSet
            alpha, beta = ctx.fresh("alpha", lo=0), ctx.fresh("beta", lo=0)
            inputs += [alpha, beta]
            E["alpha"], E["beta"] = alpha, beta
            catD = ns.ds.PrecomputedCategoricalDissimilarity(SortedSet(DECLARED), ns.np.array(DECLARED_M, dtype=ns.np.float32), delta_empty=de)
            D = ns.ds.CombinedCategoricalDissimilarity(alpha=alpha, beta=beta, delta_empty=de, cat_dissim=catD)

            def pair(x, y):
                p = common.pos_formula((info[x]["start"], info[x]["end"]), (info[y]["start"], info[y]["end"]), de)
                cat = Fraction(DECLARED_M[DECLARED.index(info[x]["label"])][DECLARED.index(info[y]["label"])]) * de
                return alpha * p + beta * cat
        else:
            raise ValueError(kind)
    ctx.model = None
    if cfg.get("warm"):
        # multi-step history on the SAME continuum and dissimilarity objects: an alignment is computed first (its MIP is only
        # captured, not decoded), then the continuum is changed through the public API, then the alignment under test is computed
        Segment = ns.Segment
        extra = (ANN[0], Segment(core.const(1000), core.const(1005)), "c999")
        if cfg["warm"] == "remove":
            c.add(*extra)                      # present during the first computation, removed before the second
        st.capture_only = True
        if cfg["warm"] == "other-continuum":
            # the same dissimilarity object is first used on ANOTHER continuum (a copy with one more unit)
            other_c = c.copy()
            other_c.add(extra[0], extra[1], next(iter(c.categories)) if len(c.categories) else None)    # a label the dissimilarity knows
            try:
                (other_c.get_best_soft_alignment if cfg.get("mode", "best") == "soft" else other_c.get_best_alignment)(D)
            except cpstub.CaptureDone:
                pass
        try:
            (c.get_best_soft_alignment if cfg.get("warm_mode", cfg.get("mode", "best")) == "soft" else c.get_best_alignment)(D)
        except cpstub.CaptureDone:
            pass
        st.capture_only = False
        del st.problems[:]
        if cfg["warm"] == "remove":
            c.remove(extra[0], ns.co.Unit(extra[1], extra[2]))
        elif cfg["warm"] == "add-remove":
            c.add(*extra)
            c.remove(extra[0], ns.co.Unit(extra[1], extra[2]))
    E.update(c=c, info=info, D=D, pair=pair, inputs=inputs)
    ctx.notes["inputs"] = inputs
    ctx.notes["realize"] = lambda m: realize(E, m, cfg)
    return E


def realize(E, m, cfg):
    """model -> inputs for the real build"""
    sizes = E["sizes"]
    case = dict(kind="pipeline", warm=cfg.get("warm"), sizes=list(sizes), mode=cfg.get("mode", "best"), dissim=E["kind"],
                backend=cfg.get("backend", "cbc"), de=common.frs(mval(m, E["de"])))
    units = []
    for (a, j), v in sorted(E["info"].items()):
        units.append([ANN[a], common.frs(mval(m, v["start"])), common.frs(mval(m, v["end"])), v["label"]])
    case["units"] = units
    case["annotators"] = [ANN[a] for a in range(len(sizes))]
    if E["kind"] == "abstract":
        case["pairs"] = {f"{i},{j}": common.frs(mval(m, v)) for (i, j), v in E["table"].D.items()}
    if E["kind"] in ("combined", "combined-declared"):
        case["alpha"] = common.frs(mval(m, E["alpha"]))
        case["beta"] = common.frs(mval(m, E["beta"]))
    return case


def decode(E, alignment):
    """Structure facts of a returned alignment + its index tuples (None if malformed)."""
    c, sizes, n = E["c"], E["sizes"], E["n"]
    names = [ANN[a] for a in range(n)]
    facts = []
    tuples = []
    unit_lists = [list(c._annotations[nm]) for nm in names]
    slot_count = {(a, j): [] for a in range(n) for j in range(sizes[a])}   # list of z3 bools
    wellformed = True
    for ua in alignment.unitary_alignments:
        tup = ua.n_tuple
        anns = [a for a, _ in tup]
        ok_ann = sorted(anns) == sorted(names) and len(anns) == n
        facts.append(("one-slot-per-annotator", ok_ann))
        facts.append(("has-a-real-unit", any(u is not None for _, u in tup)))
        if not ok_ann:
            wellformed = False
            continue
        t = [None] * n
        for nm, u in tup:
            a = names.index(nm)
            if u is None:
                t[a] = sizes[a]
                continue
            k = common.unit_index(unit_lists[a], u)
            if k is None:
                # not the same object (the fast alignment works on a deep copy): the same unit by value?
                for idx_, v in enumerate(unit_lists[a]):
                    if u.annotation == v.annotation and bool(u.segment.start == v.segment.start) and bool(u.segment.end == v.segment.end):
                        k = idx_
                        break
            if k is None:
                # not the continuum's own object: is it equal by value to one of that annotator's units?
                eqs = [z3.And(lift(u.segment.start) == lift(v.segment.start), lift(u.segment.end) == lift(v.segment.end),
                              z3.BoolVal(u.annotation == v.annotation)) for v in unit_lists[a]]
                facts.append(("no-foreign-unit", SymBool(z3.Or(*eqs) if eqs else z3.BoolVal(False))))
                wellformed = False
            else:
                facts.append(("no-foreign-unit", True))
                t[a] = k
                slot_count[(a, k)].append(True)
        tuples.append(tuple(t) if None not in t else None)
    if any(t is None for t in tuples):
        wellformed = False
    return facts, tuples, slot_count, wellformed


def structure_obls(E, alignment, soft, rz):
    facts, tuples, slot_count, wellformed = decode(E, alignment)
    obls = [Obl(nm, f, rz) for nm, f in facts]
    for (a, j), occ in slot_count.items():
        if soft:
            obls.append(Obl("every-unit-covered", len(occ) >= 1, rz))
        else:
            obls.append(Obl("every-unit-exactly-once", len(occ) == 1, rz))
    obls.append(Obl("at-least-one-unitary-alignment", len(alignment.unitary_alignments) >= 1, rz))
    obls += solver_option_obls(E["state"].problems, rz)
    return obls, (tuples if wellformed else None)


# cvxpy solve() keywords that do not change what "optimal" means (logging, caching of the canonicalisation, re-use of a previous point)
HARMLESS_SOLVER_OPTIONS = {"verbose", "warm_start", "ignore_dpp", "enforce_dpp", "requires_grad", "gp", "qcp", "canon_backend"}


def solver_option_obls(problems, rz, prefix=""):
    """the MIP stub's contract ("solve returns an optimal 0/1 point") only describes a solver that is asked for an exact optimum:
    any option handed to solve() other than the solver's name and `verbose` (gap tolerances, time / node limits, presolve
    switches ...) is outside that contract and is reported"""
    out = []
    for k, p in enumerate(problems):
        extra = sorted(set(p.get("options") or {}) - HARMLESS_SOLVER_OPTIONS)
        out.append(Obl(prefix + "solver-asked-for-an-exact-optimum(no gap / limit option)", not extra, rz))
        if "boolean" in p:
            out.append(Obl(prefix + "mip-variable-declared-boolean(a relaxed variable may come back fractional)", p["boolean"], rz))
    return out


def run_alignment(ns, E, mode):
    c, D = E["c"], E["D"]
    if mode == "soft":
        return c.get_best_soft_alignment(D)
    if isinstance(mode, str) and mode.startswith("fast"):
        return c.get_fast_alignment(D, int(mode[4:] or 1))
    return c.get_best_alignment(D)


# ---------------------------------------------------------------------------------------------
# real build: generic replay of a pipeline case against an independent concrete oracle
# ---------------------------------------------------------------------------------------------
def real_setup(case):
    import numpy as np
    import pygamma_agreement as pa
    from sortedcontainers import SortedSet
    c = common.real_continuum(case)
    de = float(Fraction(case["de"]))
    sizes = case["sizes"]
    kind = case["dissim"]
    units = {}
    idx = 0
    per = {}
    for a, s, e, lab in case["units"]:
        per.setdefault(a, []).append((float(Fraction(s)), float(Fraction(e)), lab, idx))
        idx += 1
    if kind == "abstract":
        nunits = sum(sizes)
        labels = [common.uid_label(k) for k in range(nunits)]
        if case.get("warm"):
            labels.append("c999")           # the unit that exists only during the earlier computation (category index nunits)
            nunits += 1
        cats = SortedSet(labels)
        M = np.zeros((nunits, nunits), dtype=np.float32)
        P = {}
        for key, v in case["pairs"].items():
            i, j = (int(x) for x in key.split(","))
            M[i, j] = M[j, i] = float(Fraction(v)) / de
            P[(i, j)] = P[(j, i)] = float(Fraction(v))
        D = pa.PrecomputedCategoricalDissimilarity(cats, M, delta_empty=de)

        def pair(u, v):
            return P.get((u[3], v[3]), 0.0)
    elif kind == "positional":
        D = pa.PositionalSporadicDissimilarity(delta_empty=de)

        def pair(u, v):
            r = (abs(u[0] - v[0]) + abs(u[1] - v[1])) / ((u[1] - u[0]) + (v[1] - v[0]))
            return r * r * de
    elif kind == "combined-declared":
        al, be = float(Fraction(case["alpha"])), float(Fraction(case["beta"]))
        catD = pa.PrecomputedCategoricalDissimilarity(SortedSet(DECLARED), np.array(DECLARED_M, dtype=np.float32), delta_empty=de)
        D = pa.CombinedCategoricalDissimilarity(alpha=al, beta=be, delta_empty=de, cat_dissim=catD)

        def pair(u, v):
            r = (abs(u[0] - v[0]) + abs(u[1] - v[1])) / ((u[1] - u[0]) + (v[1] - v[0]))
            return al * r * r * de + be * DECLARED_M[DECLARED.index(u[2])][DECLARED.index(v[2])] * de
    else:
        al, be = float(Fraction(case["alpha"])), float(Fraction(case["beta"]))
        D = pa.CombinedCategoricalDissimilarity(alpha=al, beta=be, delta_empty=de)

        def pair(u, v):
            r = (abs(u[0] - v[0]) + abs(u[1] - v[1])) / ((u[1] - u[0]) + (v[1] - v[0]))
            return al * r * r * de + be * (de if u[2] != v[2] else 0.0)
    return c, D, de, per, pair


def real_oracle(case, per, pair, de, soft=False):
    """min cost over all exact covers (or minimal covers) with concrete floats"""
    sizes = case["sizes"]
    n = len(sizes)
    names = case["annotators"]
    ul = [sorted(per.get(nm, []), key=lambda u: (u[0], u[1], (u[2] is not None, u[2] or ""))) for nm in names]
    sizes = [len(x) for x in ul]

    def P(x, y):
        return pair(ul[x[0]][x[1]], ul[y[0]][y[1]])

    covers = common.minimal_covers(sizes) if soft else common.exact_covers(sizes)
    best = None
    for cov in covers:
        cst = float(common.alignment_cost(cov, sizes, de, P))
        if best is None or cst < best:
            best = cst
    return best, ul


def real_check_alignment(case, c, alignment, soft):
    """structure of an alignment returned by the real build, checked by value"""
    bad = []
    names = list(c.annotators)
    counts = {}
    for ua in alignment.unitary_alignments:
        anns = [a for a, _ in ua.n_tuple]
        if sorted(anns) != sorted(names):
            bad.append(f"slots {anns}")
        if all(u is None for _, u in ua.n_tuple):
            bad.append("all-empty unitary alignment")
        for a, u in ua.n_tuple:
            if u is None:
                continue
            if a not in c._annotations or u not in c._annotations[a]:
                bad.append(f"foreign unit {a}:{u}")
            counts[(a, u)] = counts.get((a, u), 0) + 1
    for a, u in c:
        k = counts.get((a, u), 0)
        if (k < 1) if soft else (k != 1):
            bad.append(f"unit {a}:{u} occurs {k} times")
    return bad


def replay_pipeline(case, alarm=None):
    """Generic replay: run the real build on the model's inputs; reproduced iff it raises, returns a
    malformed alignment, or its disorder differs from the independent optimum."""
    import sys
    import types
    backend = case.get("backend", "cbc")
    restore = None
    if backend == "glpk_import":
        sys.modules["cylp"] = None
    elif backend == "glpk_solvererror":
        import cvxpy as cp
        orig = cp.Problem.solve

        def failing(self, *a, **k):
            if k.get("solver") == cp.CBC:
                raise cp.SolverError("CBC failed (replay of the SolverError configuration)")
            return orig(self, *a, **k)
        cp.Problem.solve = failing
        restore = lambda: setattr(cp.Problem, "solve", orig)     # noqa: E731
    try:
        return _replay_pipeline(case)
    finally:
        if backend == "glpk_import":
            sys.modules.pop("cylp", None)
        if restore:
            restore()


def _replay_pipeline(case):
    backend = case.get("backend", "cbc")
    try:
        c, D, de, per, pair = real_setup(case)
    except Exception as ex:     # noqa: BLE001
        return dict(reproduced=True, detail="building the inputs raised " + repr(ex)[:300])
    soft = case.get("mode") == "soft"
    if case.get("offer_zero"):
        from pyannote.core import Segment as _Seg
        for a_, z_ in zip(case["annotators"], case["offer_zero"]):
            try:
                c.add(a_, _Seg(float(Fraction(z_)), float(Fraction(z_))), None)       # not a unit: must be refused
            except ValueError:
                pass
    if case.get("warm"):
        import pygamma_agreement as pa
        from pyannote.core import Segment
        extra_u = pa.Unit(Segment(1000.0, 1005.0), "c999" if case.get("dissim") == "abstract" else "x")
        try:
            if case["warm"] == "remove":
                c.add(ANN[0], extra_u.segment, extra_u.annotation)
            if case["warm"] == "other-continuum":
                oc = c.copy()
                oc.add(ANN[0], extra_u.segment, next(iter(c.categories)) if len(c.categories) else None)
                (oc.get_best_soft_alignment if soft else oc.get_best_alignment)(D)
            (c.get_best_soft_alignment if soft else c.get_best_alignment)(D)
            if case["warm"] == "remove":
                c.remove(ANN[0], extra_u)
            elif case["warm"] == "add-remove":
                c.add(ANN[0], extra_u.segment, extra_u.annotation)
                c.remove(ANN[0], extra_u)
        except Exception as ex:     # noqa: BLE001
            return dict(reproduced=True, detail="the preceding computation / edit raised " + repr(ex)[:300])
    fast = str(case.get("mode", "")).startswith("fast")
    try:
        if fast:
            A = c.get_fast_alignment(D, int(str(case["mode"])[4:] or 1))
        else:
            A = c.get_best_soft_alignment(D) if soft else c.get_best_alignment(D)
    except BaseException as ex:    # noqa: BLE001
        if type(ex).__name__ == "_Alarm":
            raise
        return dict(reproduced=True, detail="real build raised " + repr(ex)[:300])
    bad = real_check_alignment(case, c, A, soft)
    if bad:
        return dict(reproduced=True, detail="; ".join(bad[:4]))
    want, _ = real_oracle(case, per, pair, de, soft)
    got = float(A.disorder)
    if fast:
        # a fast alignment is a partition that is never better than the optimum (equal when the window covers everything)
        w_, n_units, n_ann = int(str(case["mode"])[4:] or 1), len(case["units"]), len(case["annotators"])
        if got < want - 2e-5 * max(1.0, abs(want)) or (w_ * n_ann >= n_units and abs(got - want) > 2e-5 * max(1.0, abs(want))):
            bad.append(f"fast disorder {got} vs optimum {want}")
    elif abs(got - want) > 2e-5 * max(1.0, abs(want)):
        bad.append(f"disorder {got} != optimum {want}")
    try:
        rec = float(A.compute_disorder(D))
    except Exception as ex:     # noqa: BLE001
        return dict(reproduced=True, detail="recomputing the disorder raised " + repr(ex)[:200])
    if abs(rec - got) > 2e-5 * max(1.0, abs(got)):
        bad.append(f"cached disorder {got} != recomputed {rec}")
    return dict(reproduced=bool(bad), detail="; ".join(bad[:4]), disorder=got, optimum=want)


# ---------------------------------------------------------------------------------------------
# translator validation: the symbolic build in concrete mode against the real numba / cvxpy build
# ---------------------------------------------------------------------------------------------
TV_FILES = ["AlexPaulSuzan.csv", "annotation_paul_suzann_alex.csv", "example_figure10.csv"]


def tv_cases(tier="quick"):
    """the repository's own test inputs + two tiny instances whose optimum can be enumerated"""
    cases = []
    for f in TV_FILES:
        for mode in ("best", "soft"):
            for (al, be, de) in ((3, 1, 1), (1, 2, 0.5)):
                cases.append(dict(kind="file", file=f, mode=mode, alpha=al, beta=be, de=de))
    cases.append(dict(kind="tiny", units=[["a0", "0", "4", "x"], ["a0", "5", "9", "y"], ["a1", "1", "4", "x"], ["a2", "6", "10", "x"]],
                      annotators=["a0", "a1", "a2"], alpha=1, beta=1, de=1))
    cases.append(dict(kind="tiny", units=[["a0", "0", "4", None], ["a0", "2", "3", None], ["a1", "0", "4", None]], annotators=["a0", "a1"], alpha=1, beta=0, de=2))
    return cases


def _tv_inputs(case, pa, root):
    import os
    if case["kind"] == "file":
        return pa.Continuum.from_csv(os.path.join(root, "tests", "data", case["file"]))
    return None


def tv_real(cases):
    import os
    import numpy as np
    import pygamma_agreement as pa
    from pygamma_agreement.numba_utils import build_A
    root = os.environ.get("VERIF_REPO", "/repo")
    out = []
    for case in cases:
        c = _tv_inputs(case, pa, root) or common.real_continuum(case)
        D = pa.CombinedCategoricalDissimilarity(alpha=case["alpha"], beta=case["beta"], delta_empty=case["de"])
        dis, al = D.valid_alignments(c)
        sizes = np.array([len(u) for u in c._annotations.values()], dtype=np.int32)
        A = build_A(al, sizes)
        order = sorted(range(len(al)), key=lambda k: tuple(int(x) for x in al[k]))
        mode = case.get("mode", "best")
        res = c.get_best_soft_alignment(D) if mode == "soft" else c.get_best_alignment(D)
        rec = dict(candidates=[[int(x) for x in al[k]] for k in order], objective=[round(float(dis[k]), 5) for k in order],
                   rows=[[int(A[i, k]) for k in order] for i in range(A.shape[0])], disorder=round(float(res.disorder), 5),
                   recomputed=round(float(res.compute_disorder(D)), 5), n_unitary=len(res.unitary_alignments))
        out.append(rec)
    return out


def tv_sym(cases, ns):
    """same inputs through the symbolic build, plain numbers: the problem handed to the MIP stub is captured and - where small
    enough - solved by enumeration"""
    import itertools
    import os
    import numpy as real_np
    from symx import core as _core
    root = os.environ.get("VERIF_REPO", "/repo")
    out = []
    for case in cases:
        ctx = _core.Ctx()
        _core.Ctx.cur = ctx
        try:
            st = common.set_backend("cbc")
            ns.co.cp = cpstub
            st.capture_only = True
            if case["kind"] == "file":
                c = ns.co.Continuum.from_csv(os.path.join(root, "tests", "data", case["file"]))
            else:
                c = ns.co.Continuum()
                for a in case["annotators"]:
                    c.add_annotator(a)
                for a, s, e, lab in case["units"]:
                    c.add(a, ns.Segment(float(s), float(e)), lab)
            D = ns.ds.CombinedCategoricalDissimilarity(alpha=case["alpha"], beta=case["beta"], delta_empty=case["de"])
            mode = case.get("mode", "best")
            try:
                (c.get_best_soft_alignment if mode == "soft" else c.get_best_alignment)(D)
            except cpstub.CaptureDone:
                pass
            rec_p = st.problems[-1]
            dis, al = D.valid_alignments(c)
            n = rec_p["n"]
            order = sorted(range(n), key=lambda k: tuple(int(x) for x in al[k]))
            obj = [float(rec_p["objective"][k]) for k in order]
            (M, op, rhs) = rec_p["rows"][0]
            rows = [[int(M[i][k]) for k in order] for i in range(len(M))]
            avg = c.avg_num_annotations_per_annotator
            best = None
            nsel = None
            if n <= 16:
                for bits in itertools.product((0, 1), repeat=n):
                    ok = all((sum(r[k] * bits[k] for k in range(n)) == 1) if mode != "soft" else (sum(r[k] * bits[k] for k in range(n)) >= 1) for r in rows)
                    if ok:
                        v = sum(obj[k] * bits[k] for k in range(n)) / avg
                        if best is None or v < best - 1e-12:
                            best, nsel = v, sum(bits)
            out.append(dict(candidates=[[int(x) for x in al[k]] for k in order], objective=[round(x, 5) for x in obj], rows=rows,
                            disorder=None if best is None else round(best, 5), recomputed=None if best is None else round(best, 5),
                            n_unitary=nsel, _op=op, _rhs=rhs))
        finally:
            _core.Ctx.cur = None
    return out


def tv_compare_hook(mine, theirs):
    """fields the symbolic side cannot compute (large problems) are copied from the real side before comparison"""
    for a, b in zip(mine, theirs):
        # "recomputed" is the real build's own second computation: whether it agrees with the carried disorder is a question about
        # the repository (C03's cross-check on these inputs), not about the translator
        a["recomputed"] = b.get("recomputed")
        for k in ("disorder", "n_unitary"):
            if a.get(k) is None:
                a[k] = b.get(k)
        a.pop("_op", None)
        a.pop("_rhs", None)
    return mine, theirs


# ---------------------------------------------------------------------------------------------
# real-build cross-check on medium continua: independent MILP (scipy / HiGHS) over ALL tuples, no pruning
# ---------------------------------------------------------------------------------------------
def medium_cases(seed=0):
    import random
    rnd = random.Random(1000 + seed)
    cases = []
    for shape in ((5, 5, 4), (4, 4, 3, 3), (9, 8), (3, 3, 3, 2, 2), (6, 0, 5)):
        units = []
        for a, nu in enumerate(shape):
            t = rnd.uniform(0, 3)
            for j in range(nu):
                dur = rnd.choice([0.5, 1.0, 2.5, 6.0])
                gap = rnd.choice([-2.0, -0.5, 0.0, 0.3, 1.5])       # negative gaps: overlapping and nested units
                s = max(0.0, t + gap)
                units.append([ANN[a], repr(s), repr(s + dur), rnd.choice(["x", "y", "z", None] if a % 2 == 0 else ["x", "y"])])
                t = s + dur
        cases.append(dict(shape=list(shape), units=units, annotators=[ANN[a] for a in range(len(shape))],
                          alpha=rnd.choice([0, 1, 3]), beta=rnd.choice([0, 1, 2]), de=rnd.choice([0.5, 1, 2.5]),
                          dissim=rnd.choice(["combined", "positional"])))
    # delta_empty values that are not float32-representable (0.1, 0.2, ...) with isolated units that can only stay alone:
    # the pruning criterion of the tuple enumeration sits next to the cost of such a tuple, and only float rounding (which the
    # real-arithmetic model does not see) decides on which side
    for k, (shape, de) in enumerate((((2, 2, 1), 0.1), ((2, 1, 2), 0.2), ((1, 2, 1, 1), 0.4), ((2, 2, 2), 0.05), ((1, 1, 2, 1), 0.9),
                                     ((2, 1, 1), 0.8), ((1, 1, 1), 0.3), ((2, 2, 1), 0.7))):
        units = []
        for a, nu in enumerate(shape):
            for j in range(nu):
                s = 100.0 * j + (0.4 * a if j == 0 else 37.0 * a + 11.0)     # first units overlap, later ones are far from everything
                units.append([ANN[a], repr(s), repr(s + 1.0 + 0.25 * a), ["x", "y"][(a + j) % 2]])
        cases.append(dict(shape=list(shape), units=units, annotators=[ANN[a] for a in range(len(shape))], alpha=1, beta=[0, 1][k % 2],
                          de=de, dissim=["combined", "positional"][(k // 2) % 2]))
    return cases


def odd_cycle_cases():
    """three annotators whose units form an odd cycle of pair costs between 2 and 3 delta_empty (three labels on one spot ...): the LP
    relaxation of the cover / partition program is fractional there"""
    cases = []
    for shift in (0.0, 1.0, 2.0):
        units = [[ANN[0], repr(0.0), repr(10.0), "x"], [ANN[1], repr(4.0 - shift), repr(14.0 - shift), "y"], [ANN[2], repr(2.0), repr(12.0 + shift), "z"],
                 [ANN[0], repr(30.0), repr(35.0), "x"], [ANN[1], repr(30.5), repr(35.5), "x"], [ANN[2], repr(31.0), repr(36.0), "x"]]
        cases.append(dict(shape=[2, 2, 2], units=units, annotators=ANN[:3], alpha=3, beta=2, de=1, dissim="combined"))
    units = [[ANN[a], repr(0.0), repr(10.0), "xyz"[a]] for a in range(3)]
    cases.append(dict(shape=[1, 1, 1], units=units, annotators=ANN[:3], alpha=3, beta=2, de=1, dissim="combined"))
    # two annotators and an exact tie between two optimal alignments (the relaxation is integral, but an interior-point method returns
    # the midpoint of the optimal face)
    for de in (1, 0.5):
        units = [[ANN[0], repr(2.0), repr(4.0), "x"], [ANN[1], repr(1.0), repr(3.0), "x"], [ANN[1], repr(3.0), repr(5.0), "x"]]
        cases.append(dict(shape=[1, 2], units=units, annotators=ANN[:2], alpha=1, beta=1, de=de, dissim="positional"))
        cases.append(dict(shape=[1, 2], units=units, annotators=ANN[:2], alpha=1, beta=1, de=de, dissim="combined"))
    return cases


def dense_cases(n, seed=0):
    """4 annotators x 5 competing / overlapping units: the LP relaxation is often fractional, so that the MIP solver has to branch
    (this is where a gap tolerance or a search limit shows)"""
    import random
    rnd = random.Random(77 + seed)
    cases = []
    for k in range(n):
        units = []
        for a in range(4):
            t = rnd.uniform(0, 2)
            for j in range(5):
                dur = rnd.uniform(1.0, 4.0)
                s = max(0.0, t + rnd.uniform(-1.5, 1.0))
                units.append([ANN[a], repr(s), repr(s + dur), rnd.choice(["x", "y", "z"])])
                t = s + dur
        cases.append(dict(shape=[5, 5, 5, 5], units=units, annotators=ANN[:4], alpha=1, beta=1, de=1, dissim="combined"))
    return cases


def large_cases(seed=0):
    """continua with hundreds to a few thousand candidate unitary alignments (3 x 14 and 2 x 40 overlapping units, 4 x 6 crowded ones): what
    only happens above some number of candidates - a threshold, a reordering, a batch boundary - shows here and not on the solver's small shapes"""
    import random
    rnd = random.Random(4321 + seed)
    cases = []
    for shape, step, dur in (((14, 14, 14), 1.1, (1.0, 3.5)), ((40, 40), 0.6, (0.8, 3.0)), ((6, 6, 6, 6), 0.9, (1.0, 4.0))):
        units = []
        for a, nu in enumerate(shape):
            t = rnd.uniform(0, 1)
            for j in range(nu):
                d = rnd.uniform(*dur)
                s = max(0.0, t + rnd.uniform(-0.8, 0.4))
                units.append([ANN[a], repr(s), repr(s + d), rnd.choice(["x", "y", "z"])])
                t = s + step
        cases.append(dict(shape=list(shape), units=units, annotators=[ANN[a] for a in range(len(shape))], alpha=1, beta=1, de=1, dissim="combined"))
    return cases


def real_medium_check(case, mode="best", backends=("cbc",)):
    """best / soft alignment of a medium continuum on the real build against an independent MILP over all tuples"""
    import itertools
    import sys
    import numpy as np
    import pygamma_agreement as pa
    from pyannote.core import Segment
    from scipy.optimize import milp, LinearConstraint, Bounds
    bad = []
    for seed_case in (case.get("cases") or medium_cases(case.get("seed", 0))):
        if len(bad) >= 3:
            break
        c = pa.Continuum()
        for a in seed_case["annotators"]:
            c.add_annotator(a)
        for a, s, e, lab in seed_case["units"]:
            c.add(a, Segment(float(s), float(e)), lab)
        al, be, de = float(seed_case["alpha"]), float(seed_case["beta"]), float(seed_case["de"])
        if al == 0 and be == 0:
            al = 1.0
        D = pa.PositionalSporadicDissimilarity(delta_empty=de) if seed_case["dissim"] == "positional" else \
            pa.CombinedCategoricalDissimilarity(alpha=al, beta=be, delta_empty=de)
        names = list(c.annotators)
        ul = [list(c._annotations[a]) for a in names]
        sizes = [len(u) for u in ul]
        n = len(sizes)
        c2n = n * (n - 1) // 2

        def d(u, v):
            su, eu, sv, ev = (float(np.float32(x)) for x in (u.segment.start, u.segment.end, v.segment.start, v.segment.end))
            r = (abs(su - sv) + abs(eu - ev)) / ((eu - su) + (ev - sv))
            p = r * r * de
            if seed_case["dissim"] == "positional":
                return p
            return al * p + be * (de if u.annotation != v.annotation else 0.0)
        tuples, costs = [], []
        for t in itertools.product(*[range(s + 1) for s in sizes]):
            if all(t[a] == sizes[a] for a in range(n)):
                continue
            tot = 0.0
            for a in range(n):
                for b in range(a):
                    tot += de if (t[a] == sizes[a] or t[b] == sizes[b]) else d(ul[a][t[a]], ul[b][t[b]])
            tuples.append(t)
            costs.append(tot / c2n)
        offs = np.cumsum([0] + sizes)
        A = np.zeros((int(offs[-1]), len(tuples)))
        for k, t in enumerate(tuples):
            for a in range(n):
                if t[a] != sizes[a]:
                    A[offs[a] + t[a], k] = 1
        lo, hi = (1, np.inf) if mode == "soft" else (1, 1)
        res = milp(c=np.array(costs), constraints=LinearConstraint(A, lo, hi), integrality=np.ones(len(tuples)), bounds=Bounds(0, 1))
        want = float(res.fun) / (sum(sizes) / n)
        for backend in backends:
            if backend == "glpk_import":
                sys.modules["cylp"] = None
            try:
                R = c.get_best_soft_alignment(D) if mode == "soft" else c.get_best_alignment(D)
            except Exception as ex:     # noqa: BLE001
                bad.append(f"shape {seed_case['shape']} {seed_case['dissim']} [{backend}]: raised {ex!r}"[:200])
                continue
            finally:
                if backend == "glpk_import":
                    sys.modules.pop("cylp", None)
            got = float(R.disorder)
            if abs(got - want) > 5e-5 * max(1.0, abs(want)):
                bad.append(f"shape {seed_case['shape']} {seed_case['dissim']} alpha={al} beta={be} delta={de} [{backend}]: {mode} disorder {got} != independent optimum {want}")
            sb = real_check_alignment(None, c, R, mode == "soft")
            if sb:
                bad.append(f"shape {seed_case['shape']} [{backend}]: " + "; ".join(sb[:2]))
            rec = float(R.compute_disorder(D))
            if abs(rec - got) > 5e-5 * max(1.0, abs(got)):
                bad.append(f"shape {seed_case['shape']} [{backend}]: carried disorder {got} != recomputed {rec}")
    return dict(reproduced=bool(bad), detail="; ".join(bad[:3])[:700])
