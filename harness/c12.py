"""C12 -- gamma-cat and gamma-k follow their definition."""
import itertools
from fractions import Fraction

import z3

from symx import core, stubs
from symx.core import Obl, SymNum, SymBool, lift, lb, mval
from . import common
from .common import ANN

META = dict(
    level="model_checking",
    technique="bounded symbolic execution (z3, nonlinear reals) of Alignment.gamma_k_disorder and GammaResults.gamma_cat / gamma_k against the definition written from the statement",
    design_ref="section 4 / C12",
    claim="For every alignment shape in the bound (annotators, unitary alignments, EVERY pattern of empty slots and labels over two categories, category "
          "None / present / absent) and all real positional and categorical pair values >= 0, alpha >= 0, delta_empty > 0: wherever the statement "
          "defines a value (at least one counted real/real pair, total weight > 0) gamma_k_disorder equals sum(w*cat)/sum(w) with w = max(0, 1 - "
          "alpha*pos)/(k-1) for real pairs and delta_empty*delta_empty at weight delta_empty for unit/empty pairs, only pairs involving the category "
          "counting for gamma-k; gamma_cat / gamma_k equal 1 - observed/mean(chance), are <= 1, equal 1 when observed is 0 - in particular (real "
          "components) when co-aligned units never differ in category and none is unaligned; every non-combined dissimilarity is refused with TypeError.",
    trusted="z3 (nlsat); the library's conventions for degenerate cases (no counted pair: 1.0 / 0.0; zero expected disorder) are recorded, not judged",
    bounds=dict(quick="(overall disorders of the alignments of a result object: free symbols >= 0) n in {2,3} annotators x 1..2 unitary alignments (n=3: 1), abstract components; n=2 real components with symbolic coordinates",
                thorough="n = 4 x 1, n = 3 x 2, n = 2 x 3"),
    outside="alignments with more unitary alignments than the bound (the loop is per unitary alignment, sums are additive)",
    stubs=["positional / categorical components = one free symbol >= 0 per unit pair (abstract configs)", "ThreadPoolExecutor = deferred executor"],
    assumptions=["pair values >= 0", "alpha >= 0", "delta_empty > 0", "chance categorical disorders > 0 where a ratio is asserted"],
    cfg_budget_s=dict(quick=240, thorough=900),
)

CATS = [None, "a", "b", "z"]


def configs(tier):
    out = []
    shapes = [(2, 1), (2, 2), (3, 1), (4, 1)] + ([(3, 2), (2, 3), (5, 1)] if tier == "thorough" else [])      # 4+ annotators: a unitary alignment can hold 3 real units AND an empty one
    for n, k in shapes:
        out.append(dict(key=f"abstract-components,n={n},unitary={k}", kind="abstract", n=n, k=k, cost=(3 ** (n * k)) * 8, split=32))
    out.append(dict(key="real-components,n=2,unitary=1", kind="real", n=2, k=1, cost=200))
    out.append(dict(key="real-components,n=2,unitary=2,same-labels", kind="real", n=2, k=2, same=True, cost=300))
    out.append(dict(key="ratio,gamma_cat", kind="ratio", meth="gamma_cat", cost=20))
    out.append(dict(key="ratio,gamma_k", kind="ratio", meth="gamma_k", cost=20))
    out.append(dict(key="ratio,sequence gamma_k(x), gamma_k(y), gamma_cat on one result", kind="ratio", meth="sequence", cost=60))
    out.append(dict(key="refused-for-non-combined", kind="refuse", cost=5))
    return out


def _ratio_ok(got, num, den, de):
    """got * den == num up to 1e-9 relative: the code divides by (k - 1) in concrete floats (1/3 is not a binary fraction), the
    definition above is exact"""
    eps = Fraction(1, 10 ** 9)
    g, n_, d_ = lift(got), lift(num), lift(den)
    slack = lift(eps) * (n_ + d_ * lift(de) + d_)
    return SymBool(z3.Implies(d_ > 0, z3.And(g * d_ - n_ <= slack, n_ - g * d_ <= slack)))


def definition(tuples, alpha, de, pos, cat, category):
    """(numerator, denominator, counted real/real pairs) written from the statement.
    tuples: list of lists of (uid or None, label)."""
    num, den, cnt = 0, 0, 0
    for tup in tuples:
        k = sum(1 for u, _ in tup if u is not None)
        for i in range(len(tup)):
            for j in range(i + 1, len(tup)):
                (u1, l1), (u2, l2) = tup[i], tup[j]
                if u1 is None and u2 is None:
                    continue
                if category is not None and not ((u1 is not None and l1 == category) or (u2 is not None and l2 == category)):
                    continue
                if u1 is None or u2 is None:
                    num = num + de * de
                    den = den + de
                    continue
                # 1/(k-1) as the binary64 number the code works with (1/3 is not a binary fraction; the difference with the exact
                # rational is 2^-54 relative and would otherwise need a tolerance, i.e. nonlinear inequalities, in every query)
                w = core.s_max(0, 1 - alpha * pos(u1, u2)) * Fraction(1.0 / (k - 1))
                num = num + w * cat(u1, u2)
                den = den + w
                cnt += 1
    return num, den, cnt


def harness(cfg, ns):
    co, al, ds, Segment = ns.co, ns.al, ns.ds, ns.Segment
    kind = cfg["kind"]

    def h_abstract(ctx):
        n, k = cfg["n"], cfg["k"]
        de = ctx.fresh("de")
        alpha = ctx.fresh("alpha", lo=0)
        ctx.solver.add(de.e > 0)
        D = ds.CombinedCategoricalDissimilarity(alpha=alpha, beta=1, delta_empty=de)
        P, C = common.PairTable(ctx), common.PairTable(ctx)
        P.val = _named(P, ctx, "pos")
        C.val = _named(C, ctx, "cat")
        uid_of = {}

        class Comp:
            def __init__(self, t):
                self.t = t

            def d(self, u1, u2):
                return self.t.val(uid_of[id(u1)], uid_of[id(u2)])
        D.positional_dissim, D.categorical_dissim = Comp(P), Comp(C)
        tuples, uas = [], []
        uid = 0
        for u in range(k):
            tup, spec = [], []
            for a in range(n):
                o = ctx.choose(3, tag=f"slot{u}_{a}")
                if o == 0:
                    tup.append((ANN[a], None))
                    spec.append((None, None))
                else:
                    lab = "ab"[o - 1]
                    unit = co.Unit(Segment(10 * u + a, 10 * u + a + 5), lab)
                    uid_of[id(unit)] = uid
                    tup.append((ANN[a], unit))
                    spec.append((uid, lab))
                    uid += 1
            if all(s[0] is None for s in spec):
                raise core.PathAbort()
            uas.append(al.UnitaryAlignment(tup))
            tuples.append(spec)
        category = CATS[ctx.choose(len(CATS), tag="category")]
        A = al.Alignment(uas)
        ctx.notes["_keep"] = uas

        def rz(m):
            return dict(kind="abstract", n=n, k=k, spec=[[list(s) for s in t] for t in tuples], category=category, de=common.frs(mval(m, de)),
                        alpha=common.frs(mval(m, alpha)), pos={f"{i},{j}": common.frs(mval(m, v)) for (i, j), v in P.D.items()},
                        cat={f"{i},{j}": common.frs(mval(m, v)) for (i, j), v in C.D.items()})
        ctx.notes["realize"] = rz
        got = A.gamma_k_disorder(D, category)
        ctx.notes["inputs"] = [de, alpha] + list(P.D.values()) + list(C.D.values())
        ctx.notes["scales"] = [de]
        num, den, cnt = definition(tuples, alpha, de, P.val, C.val, category)
        obls = []
        if cnt >= 1:
            obls.append(Obl("value==sum(w*cat)/sum(w)-where-defined", SymBool(z3.Implies(lift(den) > 0, lift(got) * lift(den) == lift(num))), rz))
        else:
            obls.append(Obl("degenerate-case-recorded(no counted real/real pair)", True, rz))
        obls.append(Obl("value>=0", SymBool(lift(got) >= 0), rz))
        return obls

    def h_real(ctx):
        n, k = cfg["n"], cfg["k"]
        de = ctx.fresh("de")
        alpha, beta = ctx.fresh("alpha", lo=0), ctx.fresh("beta", lo=0)
        ctx.solver.add(de.e > 0)
        D = ds.CombinedCategoricalDissimilarity(alpha=alpha, beta=beta, delta_empty=de)
        labs_all = ["a", "b"]
        uas, tuples, coords = [], [], {}
        uid = 0
        for u in range(k):
            tup, spec = [], []
            for a in range(n):
                lab = "a" if cfg.get("same") else labs_all[ctx.choose(2, tag=f"lab{u}_{a}")]
                s_, e_ = ctx.fresh(f"s{uid}_"), ctx.fresh(f"e{uid}_")
                ctx.solver.add(e_.e - s_.e > lift(ns.pseg.SEGMENT_PRECISION))
                unit = co.Unit(Segment(s_, e_), lab)
                coords[uid] = (s_, e_, lab)
                tup.append((ANN[a], unit))
                spec.append((uid, lab))
                uid += 1
            uas.append(al.UnitaryAlignment(tup))
            tuples.append(spec)
        category = None if cfg.get("same") else CATS[ctx.choose(3, tag="category")]
        A = al.Alignment(uas)

        def rz(m):
            return dict(kind="real", spec=[[list(s) for s in t] for t in tuples], category=category, de=common.frs(mval(m, de)), alpha=common.frs(mval(m, alpha)),
                        beta=common.frs(mval(m, beta)), coords={str(i): [common.frs(mval(m, s_)), common.frs(mval(m, e_)), lab] for i, (s_, e_, lab) in coords.items()})
        ctx.notes["realize"] = rz
        ctx.notes["inputs"] = [de, alpha, beta] + [x for v in coords.values() for x in v[:2]]
        ctx.notes["scales"] = [de]
        got = A.gamma_k_disorder(D, category)

        def pos(i, j):
            return common.pos_formula(coords[i][:2], coords[j][:2], de)

        def cat(i, j):
            return de if coords[i][2] != coords[j][2] else 0
        num, den, cnt = definition(tuples, alpha, de, pos, cat, category)
        obls = [Obl("value>=0", SymBool(lift(got) >= 0), rz)]
        if cnt >= 1:
            obls.append(Obl("value==sum(w*cat)/sum(w)-where-defined", SymBool(z3.Implies(lift(den) > 0, lift(got) * lift(den) == lift(num))), rz))
        if cfg.get("same"):
            obls.append(Obl("same-category-and-nothing-unaligned: categorical disorder is 0", core.eq(got, 0), rz))
            A = al.Alignment(uas, disorder=al.Alignment(uas).compute_disorder(D))     # as compute_gamma hands it over: with its disorder
            res = co.GammaResults(best_alignment=A, chance_alignments=[], dissimilarity=D)
            saved = co.ThreadPoolExecutor
            co.ThreadPoolExecutor = stubs.DeferredExecutor.make()
            try:
                obls.append(Obl("same-category-and-nothing-unaligned: gamma_cat is 1", core.eq(res.gamma_cat, 1), rz))
                obls.append(Obl("same-category-and-nothing-unaligned: gamma_k is 1", core.eq(res.gamma_k("a"), 1), rz))
            finally:
                co.ThreadPoolExecutor = saved
        return obls

    def h_ratio(ctx):
        meth = cfg["meth"]
        saved = co.ThreadPoolExecutor
        co.ThreadPoolExecutor = stubs.DeferredExecutor.make()
        saved_gk = al.Alignment.gamma_k_disorder
        vals, cats_seen = {}, []

        def spy(self, dissimilarity, category):
            cats_seen.append(category)
            key = id(self) if meth != "sequence" else (id(self), category)
            if key not in vals:
                vals[key] = ctx.fresh("gk!", lo=0)
                if meth == "sequence":
                    ctx.solver.add(vals[key].e > 0)
            return vals[key]
        al.Alignment.gamma_k_disorder = spy
        try:
            # overall (positional + categorical) disorders: any values >= 0 - the categorical measures must not depend on them
            overall = [ctx.fresh("overall", lo=0) for _ in range(4)]
            # the alignments hold units: the best one and two chance ones hold category 'x', one chance alignment does not (it counts in the mean all the same)

            def _ua(l1, l2):
                return [al.UnitaryAlignment([(ANN[0], co.Unit(Segment(0, 1), l1)), (ANN[1], co.Unit(Segment(0, 1), l2))])]
            best = al.Alignment(_ua("x", "y"), None, disorder=overall[0])
            chance = [al.Alignment(_ua(*labs), None, disorder=overall[1 + i]) for i, labs in enumerate((("x", "x"), ("y", "y"), ("x", "y")))]

            class D:
                pass
            d = D()
            res = co.GammaResults(best_alignment=best, chance_alignments=chance, dissimilarity=d)
            if meth == "sequence":
                seq = [("x", res.gamma_k("x")), ("y", res.gamma_k("y")), (None, res.gamma_cat), ("x", res.gamma_k("x"))]
                got = None
            else:
                got = res.gamma_cat if meth == "gamma_cat" else res.gamma_k("x")
        finally:
            co.ThreadPoolExecutor = saved
            al.Alignment.gamma_k_disorder = saved_gk
        if meth == "sequence":
            rzs = lambda m: dict(kind="ratio", meth="sequence", overall=[common.frs(mval(m, x)) for x in overall], vals={f"{i}|{c}": common.frs(mval(m, v)) for (i, c), v in   # noqa: E731
                                                                      [((([best] + chance).index(next(a for a in [best] + chance if id(a) == k[0])), k[1]), v) for k, v in vals.items()]})
            o = []
            for cat_, g in seq:
                if any((id(x), cat_) not in vals for x in [best] + chance):
                    o.append(Obl(f"every alignment of the result enters the measure[{cat_}]", False, rzs))
                    continue
                ob = vals[(id(best), cat_)]
                mean = (vals[(id(chance[0]), cat_)] + vals[(id(chance[1]), cat_)] + vals[(id(chance[2]), cat_)]) / 3
                o.append(Obl(f"each measure of the sequence uses its own category's disorders[{cat_}]", core.eq(g, 1 - ob / mean), rzs))
            return o
        rz = lambda m: dict(kind="ratio", meth=meth, vals=[common.frs(mval(m, vals[id(x)])) if id(x) in vals else None for x in [best] + chance],   # noqa: E731
                            overall=[common.frs(mval(m, x)) for x in overall])
        if id(best) not in vals:
            return [Obl("categorical-disorder-of-the-best-alignment-is-computed", False, rz)]
        obs = vals[id(best)]
        ch = [vals.get(id(x)) for x in chance]
        obls = [Obl("category-forwarded", set(cats_seen) == ({None} if meth == "gamma_cat" else {"x"}), rz)]
        obls.append(Obl("every chance alignment enters the mean (whether or not it holds the category)", all(c is not None for c in ch), rz))
        if all(c is not None for c in ch):
            mean = (ch[0] + ch[1] + ch[2]) / 3
            obls.append(Obl("value==1-observed/mean(chance)-when-observed-and-mean>0",
                            SymBool(z3.Implies(z3.And(lift(obs) > 0, lift(mean) > 0), lift(got) == 1 - lift(obs) / lift(mean))), rz))
            obls.append(Obl("value<=1", SymBool(z3.Implies(lift(mean) > 0, lift(got) <= 1)), rz))
        obls.append(Obl("value==1-when-observed-is-0", SymBool(z3.Implies(lift(obs) == 0, lift(got) == 1)), rz))
        return obls

    def h_refuse(ctx):
        from sortedcontainers import SortedSet
        import numpy as real_np
        rz = lambda m: dict(kind="refuse")   # noqa: E731
        u1, u2 = co.Unit(Segment(0, 1), "a"), co.Unit(Segment(0, 1), "b")
        A = al.Alignment([al.UnitaryAlignment([("p", u1), ("q", u2)])])
        others = [ds.PositionalSporadicDissimilarity(), ds.AbsoluteCategoricalDissimilarity(), ds.OrdinalCategoricalDissimilarity(["a", "b"]),
                  ds.LevenshteinCategoricalDissimilarity(["a", "b"]), ds.NumericalCategoricalDissimilarity(["1", "2"]),
                  ds.PrecomputedCategoricalDissimilarity(SortedSet(["a", "b"]), real_np.array([[0, 1], [1, 0]], dtype=object))]
        obls = []
        for d in others:
            for cat in (None, "a"):
                try:
                    A.gamma_k_disorder(d, cat)
                    ok = False
                except TypeError:
                    ok = True
                obls.append(Obl(f"refused-with-TypeError[{type(d).__name__}]", ok, rz))
        # the measures of a result object refuse as well, whatever overall disorder its alignments carry (0 included)
        ov = ctx.fresh("overall", lo=0)
        rz2 = lambda m: dict(kind="refuse", overall=common.frs(mval(m, ov)))   # noqa: E731
        saved = co.ThreadPoolExecutor
        co.ThreadPoolExecutor = stubs.DeferredExecutor.make()
        try:
            for d in others[:2]:
                Ab = al.Alignment(list(A.unitary_alignments), None, disorder=ov)
                res = co.GammaResults(best_alignment=Ab, chance_alignments=[al.Alignment(list(A.unitary_alignments), None, disorder=1)], dissimilarity=d)
                for nm, call in (("gamma_cat", lambda: res.gamma_cat), ("gamma_k", lambda: res.gamma_k("a"))):
                    try:
                        call()
                        ok = False
                    except TypeError:
                        ok = True
                    obls.append(Obl(f"result.{nm}-refused-with-TypeError[{type(d).__name__}]", ok, rz2))
        finally:
            co.ThreadPoolExecutor = saved
        ok = True
        try:
            A.gamma_k_disorder(ds.CombinedCategoricalDissimilarity(), None)
        except TypeError:
            ok = False
        obls.append(Obl("combined-dissimilarity-accepted", ok, rz))
        return obls
    return dict(abstract=h_abstract, real=h_real, ratio=h_ratio, refuse=h_refuse)[kind]


def _named(table, ctx, base):
    def val(i, j):
        i, j = sorted((int(i), int(j)))
        if i == j:
            return 0
        if (i, j) not in table.D:
            table.D[(i, j)] = ctx.fresh(f"{base}_{i}_{j}", lo=0)
        return table.D[(i, j)]
    return val


# ---------------------------------------------------------------------------------------------
def replay(case):
    import numpy as np
    import pygamma_agreement as pa
    from pygamma_agreement.alignment import UnitaryAlignment, Alignment
    from pyannote.core import Segment
    F = lambda x: float(Fraction(x))     # noqa: E731
    if case["kind"] in ("ratio", "refuse"):
        if case["kind"] == "refuse":
            u1, u2 = pa.Unit(Segment(0, 1), "a"), pa.Unit(Segment(0, 1), "b")
            A = Alignment([UnitaryAlignment([("p", u1), ("q", u2)])])
            bad = []
            for d in (pa.PositionalSporadicDissimilarity(), pa.AbsoluteCategoricalDissimilarity(), pa.OrdinalCategoricalDissimilarity(["a", "b"])):
                try:
                    A.gamma_k_disorder(d, None)
                    bad.append(f"{type(d).__name__} accepted")
                except TypeError:
                    pass
            import pygamma_agreement.continuum as co
            ov = F(case.get("overall", "1"))
            for d in (pa.PositionalSporadicDissimilarity(), pa.AbsoluteCategoricalDissimilarity()):
                res = co.GammaResults(best_alignment=Alignment(list(A.unitary_alignments), None, disorder=ov),
                                      chance_alignments=[Alignment(list(A.unitary_alignments), None, disorder=1.0)], dissimilarity=d)
                for nm, call in (("gamma_cat", lambda: res.gamma_cat), ("gamma_k", lambda: res.gamma_k("a"))):
                    try:
                        v = call()
                        bad.append(f"result.{nm} with {type(d).__name__} (overall disorder {ov}) returned {v} instead of refusing")
                    except TypeError:
                        pass
            return dict(reproduced=bool(bad), detail="; ".join(bad[:3]))
        from unittest import mock
        import pygamma_agreement.continuum as co
        OV = [F(x) for x in case.get("overall", ["1", "1", "1", "1"])]

        def _ua(l1, l2):
            return [UnitaryAlignment([(ANN[0], pa.Unit(Segment(0, 1), l1)), (ANN[1], pa.Unit(Segment(0, 1), l2))])]
        if case["meth"] == "sequence":
            V = {(int(k.split("|")[0]), None if k.split("|")[1] == "None" else k.split("|")[1]): F(v) for k, v in case["vals"].items()}
            if str(case.get("_obligation", "")).startswith("every"):
                OV = [1.0, 1.0, 1.0, 1.0]
                V = {(i, c_): 0.2 + 0.15 * i + (0.05 if c_ == "y" else 0.1 if c_ is None else 0.0) for i in range(4) for c_ in ("x", "y", None)}
            best = Alignment(_ua("x", "y"), None, disorder=OV[0])
            chance = [Alignment(_ua(*labs), None, disorder=OV[1 + i]) for i, labs in enumerate((("x", "x"), ("y", "y"), ("x", "y")))]
            objs = [best] + chance
            with mock.patch.object(Alignment, "gamma_k_disorder", lambda self, d, c: V[(objs.index(self), c)]):
                res = co.GammaResults(best_alignment=best, chance_alignments=chance, dissimilarity=None)
                seq = [("x", float(res.gamma_k("x"))), ("y", float(res.gamma_k("y"))), (None, float(res.gamma_cat)), ("x", float(res.gamma_k("x")))]
            bad = []
            for c_, g in seq:
                want = 1 - V[(0, c_)] / (sum(V[(i, c_)] for i in (1, 2, 3)) / 3)
                if abs(g - want) > 1e-6 * max(1, abs(want)):
                    bad.append(f"measure for category {c_!r} in the sequence = {g}, expected {want}")
            return dict(reproduced=bool(bad), detail="; ".join(bad[:2]))
        vals = [F(v) if v is not None else 1.0 for v in case["vals"]]
        if str(case.get("_obligation", "")).startswith("every"):
            vals, OV = [0.5, 0.3, 0.9, 0.6], [1.0, 1.0, 1.0, 1.0]       # generic values: which alignments enter the mean is what is at stake
        best = Alignment(_ua("x", "y"), None, disorder=OV[0])
        chance = [Alignment(_ua(*labs), None, disorder=OV[1 + i]) for i, labs in enumerate((("x", "x"), ("y", "y"), ("x", "y")))]
        table = {id(best): vals[0], **{id(c): v for c, v in zip(chance, vals[1:])}}
        with mock.patch.object(Alignment, "gamma_k_disorder", lambda self, d, c: table[id(self)]):
            res = co.GammaResults(best_alignment=best, chance_alignments=chance, dissimilarity=None)
            got = float(res.gamma_cat if case["meth"] == "gamma_cat" else res.gamma_k("x"))
        mean = sum(vals[1:]) / 3
        want = 1.0 if vals[0] == 0 else (1 - vals[0] / mean if mean > 0 else None)
        bad = [] if want is None or abs(got - want) < 1e-6 * max(1, abs(want)) else [f"{case['meth']} = {got}, 1 - observed/mean(chance) = {want}"]
        return dict(reproduced=bool(bad), detail="; ".join(bad))
    de, alpha = F(case["de"]), F(case["alpha"])
    if case["kind"] == "abstract":
        P = {tuple(int(x) for x in k.split(",")): F(v) for k, v in case["pos"].items()}
        C = {tuple(int(x) for x in k.split(",")): F(v) for k, v in case["cat"].items()}
        D = pa.CombinedCategoricalDissimilarity(alpha=alpha, beta=1, delta_empty=de)
        uid_of = {}

        class Comp:
            def __init__(self, t):
                self.t = t

            def d(self, u1, u2):
                i, j = sorted((uid_of[id(u1)], uid_of[id(u2)]))
                return self.t.get((i, j), 0.0)
        D.positional_dissim, D.categorical_dissim = Comp(P), Comp(C)
        pos = lambda i, j: P.get(tuple(sorted((i, j))), 0.0)     # noqa: E731
        cat = lambda i, j: C.get(tuple(sorted((i, j))), 0.0)     # noqa: E731
        uas = []
        keep = []
        for u, spec in enumerate(case["spec"]):
            tup = []
            for a, (uid, lab) in enumerate(spec):
                if uid is None:
                    tup.append((ANN[a], None))
                else:
                    unit = pa.Unit(Segment(10 * u + a, 10 * u + a + 5), lab)
                    uid_of[id(unit)] = uid
                    keep.append(unit)
                    tup.append((ANN[a], unit))
            uas.append(UnitaryAlignment(tup))
    else:
        beta = F(case["beta"])
        D = pa.CombinedCategoricalDissimilarity(alpha=alpha, beta=beta, delta_empty=de)
        co_ = {int(k): (F(v[0]), F(v[1]), v[2]) for k, v in case["coords"].items()}

        def pos(i, j):
            (s1, e1, _), (s2, e2, _) = co_[i], co_[j]
            r = (abs(s1 - s2) + abs(e1 - e2)) / ((e1 - s1) + (e2 - s2))
            return r * r * de
        cat = lambda i, j: de if co_[i][2] != co_[j][2] else 0.0     # noqa: E731
        uas = []
        for u, spec in enumerate(case["spec"]):
            uas.append(UnitaryAlignment([(ANN[a], pa.Unit(Segment(co_[uid][0], co_[uid][1]), lab)) for a, (uid, lab) in enumerate(spec)]))
    A = Alignment(uas)
    try:
        got = float(A.gamma_k_disorder(D, case["category"]))
    except Exception as ex:     # noqa: BLE001
        return dict(reproduced=True, detail="gamma_k_disorder raised " + repr(ex)[:200])
    num, den, cnt = definition([[tuple(s) for s in t] for t in case["spec"]], alpha, de, pos, cat, case["category"])
    bad = []
    if cnt >= 1 and float(den) > 0 and abs(got - float(num) / float(den)) > 1e-5 * max(1e-3, abs(float(num) / float(den))):
        bad.append(f"gamma_k_disorder = {got}, definition gives {float(num) / float(den)}")
    if got < 0:
        bad.append(f"negative categorical disorder {got}")
    return dict(reproduced=bool(bad), detail="; ".join(bad))
