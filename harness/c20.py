"""C20 -- command-line results equal the API results for the same options."""
import re
import types
from fractions import Fraction

import z3

from symx import core, stubs
from symx.core import Obl, SymNum, SymBool, NPFloat32, lift, lb, mval
from . import common

META = dict(
    level="model_checking",
    technique="bounded symbolic execution (z3) of cli_apps.pygamma_cmd under I/O stubs: parse_args returns a namespace with symbolic numeric options, the library calls are spies, results are symbolic float32-tagged numbers traced to print / csv / json",
    design_ref="section 4 / C20",
    claim="For every option combination in the bound (every categorical-dissimilarity choice the parser itself declares, csv / rttm input, sampler flag, "
          "gamma-cat / gamma-k flags, print / CSV / JSON output, 1-2 input files) and ALL values of alpha, beta, empty-delta, precision, n-samples, "
          "seed: the files are loaded with the requested reader and separator, the combined dissimilarity receives exactly alpha, beta, delta_empty "
          "and the categorical component the option names, compute_gamma receives that dissimilarity, the precision level, n_samples, fast=True "
          "and the sampler the flag selects, the numpy seed is set iff given and before any computation, and the numbers printed / written as CSV / "
          "written as JSON are, per input file, the very terms GammaResults.gamma, gamma_cat and gamma_k(c) returned - in a form each writer accepts "
          "(json.dump refuses numpy float32).",
    trusted="z3; argparse's own parsing of argv into the namespace (its declared option table is read from the real parser object); the csv / json / print "
            "formatting of accepted values",
    bounds=dict(quick="1 input file x 3 output modes x all declared categorical choices x flags; 2 input files (same file name in two directories) in print and JSON mode", thorough="2 input files everywhere, directory input"),
    outside="text formatting of numbers; equality with an API run on real files is the replay step (seeded real CLI run vs API run), not the solver step",
    stubs=["argparser.parse_args = symbolic namespace", "Continuum.from_csv / from_rttm / compute_gamma, dissimilarity and sampler classes = spies",
           "GammaResults = the real class over alignments with float32-tagged symbolic disorders", "print / csv.writer / json.dump / open / np.random.seed = channels"],
    assumptions=["input paths exist and are files (directory input: thorough)"],
    cfg_budget_s=dict(quick=200, thorough=900),
    replay_alarm_s=240,
)


def declared_choices():
    try:
        from symx import build
        ns = build.load()
        for a in ns.cli_apps.argparser._actions:
            if a.dest == "cat_dissim":
                return sorted(a.choices)
    except Exception:   # noqa: BLE001
        pass
    return ["absolute", "levenshtein", "numerical"]


def configs(tier):
    out = []
    for cd in declared_choices():
        for outm in ("print", "csv", "json"):
            out.append(dict(key=f"cat-dissim={cd},output={outm},files=1", cd=cd, out=outm, files=1, cost=30))
    for outm in ("print", "json") + (("csv",) if tier == "thorough" else ()):
        out.append(dict(key=f"cat-dissim=absolute,output={outm},files=2", cd="absolute", out=outm, files=2, cost=100))
    # two files whose category sets differ (the second is a subset of the first): each file is measured with its own dissimilarity
    for cd in declared_choices():
        if cd != "absolute":
            out.append(dict(key=f"cat-dissim={cd},output=json,files=2,different-categories", cd=cd, out="json", files=2, light=True, cost=100))
    return out


class FakePath:
    """stands for a pathlib.Path: str() / fspath give the whole path, .name only the last component (as pathlib does)"""
    def __init__(self, path, is_dir=False, children=()):
        self._path, self._dir, self._children = path, is_dir, list(children)

    name = property(lambda self: self._path.rsplit("/", 1)[-1])
    stem = property(lambda self: self.name.rsplit(".", 1)[0])
    suffix = property(lambda self: ("." + self.name.rsplit(".", 1)[1]) if "." in self.name else "")
    parent = property(lambda self: FakePath(self._path.rsplit("/", 1)[0] if "/" in self._path else ".", is_dir=True))
    parts = property(lambda self: tuple(self._path.split("/")))

    def is_dir(self):
        return self._dir

    def is_file(self):
        return not self._dir

    def exists(self):
        return True

    def iterdir(self):
        return iter(self._children)

    def __fspath__(self):
        return self._path

    def __str__(self):
        return self._path

    __repr__ = __str__

    def __hash__(self):
        return hash(self._path)

    def __eq__(self, o):
        return isinstance(o, FakePath) and o._path == self._path


TOK = re.compile(r"<sym#(\d+)>")


def harness(cfg, ns):
    co, al, cli = ns.co, ns.al, ns.cli_apps

    def h(ctx):
        reg = {}

        def tok(v):
            reg[len(reg)] = v
            return f"<sym#{len(reg) - 1}>"
        SymNum.__format__ = lambda self, spec: tok(self)
        SymNum.__str__ = lambda self: tok(self)
        # several files: the SAME file name in different directories (a result keyed by the bare file name would lose one of them)
        files = [FakePath(f"d{i}/in.csv") for i in range(cfg["files"])]
        if cfg.get("light"):
            fmt, mathet, g_cat, seeded = "csv", False, True, True
            g_k = bool(ctx.choose(2, tag="gk"))
        else:
            fmt = ["csv", "rttm"][ctx.choose(2, tag="format")]
            mathet = bool(ctx.choose(2, tag="mathet"))
            g_cat = bool(ctx.choose(2, tag="gcat"))
            g_k = bool(ctx.choose(2, tag="gk"))
            seeded = bool(ctx.choose(2, tag="seeded"))
        from sortedcontainers import SortedSet
        CATS = {str(f): (["a", "b"] if i == 0 else ["a"]) for i, f in enumerate(files)}
        A = dict(alpha=ctx.fresh("alpha"), beta=ctx.fresh("beta"), empty_delta=ctx.fresh("empty_delta"), precision_level=ctx.fresh("precision"),
                 n_samples=ctx.fresh("n_samples", integer=True), seed=ctx.fresh("seed", integer=True))
        args = types.SimpleNamespace(input_csv=files, separator=";", seed=A["seed"] if seeded else None, format=fmt,
                                     output_csv=FakePath("out.csv") if cfg["out"] == "csv" else None,
                                     output_json=FakePath("out.json") if cfg["out"] == "json" else None,
                                     empty_delta=A["empty_delta"], alpha=A["alpha"], beta=A["beta"], precision_level=A["precision_level"],
                                     n_samples=A["n_samples"], cat_dissim=cfg["cd"], verbose=False, gamma_cat=g_cat, gamma_k=g_k, mathet_sampler=mathet)

        def rz(m):
            return dict(kind="cli", cd=cfg["cd"], out=cfg["out"], files=cfg["files"], format=fmt, mathet=mathet, gamma_cat=g_cat, gamma_k=g_k, seeded=seeded,
                        **{k: common.frs(mval(m, v)) for k, v in A.items()})
        ctx.notes["realize"] = rz
        ctx.notes["inputs"] = list(A.values())
        log = dict(load=[], combined=[], cat=[], sampler=[], gamma=[], events=[])
        rng = stubs.RNG(ctx)
        orig_seed = rng.seed
        rng.seed = lambda s=None: (log["events"].append("seed"), orig_seed(s))[1]
        ns.np.random = rng
        results = {}

        class Cont:
            def __init__(self, path):
                self.path = path
                self.categories = SortedSet(CATS[str(path)])

            def compute_gamma(self, *a, **kw):
                import inspect
                try:
                    kw = dict(inspect.signature(co.Continuum.compute_gamma).bind(self, *a, **kw).arguments)
                    kw.pop("self", None)
                except TypeError:
                    pass
                log["gamma"].append((self, kw))
                log["events"].append("compute")
                best = al.Alignment([], None, disorder=NPFloat32(ctx.fresh("obs!", lo=0).e))
                ch = al.Alignment([], None, disorder=NPFloat32(ctx.fresh("exp!").e))
                ctx.solver.add(ch.disorder.e > 0)
                res = co.GammaResults(best_alignment=best, chance_alignments=[ch], dissimilarity=kw.get("dissimilarity"), precision_level=kw.get("precision_level"))
                results[self.path] = res
                return res
        gk_vals = {}

        def gk_spy(self, dissimilarity, category):
            key = (id(self), category)
            if key not in gk_vals:
                gk_vals[key] = NPFloat32(ctx.fresh("gk!", lo=0).e)
                if False:
                    pass
            return gk_vals[key]

        import inspect as _inspect
        REAL_LOADERS = dict(from_csv=co.Continuum.from_csv, from_rttm=co.Continuum.from_rttm)

        def _non_default(fn, options):
            """options the real loader would apply anyway (value == its own default) change nothing: dropped"""
            try:
                params = _inspect.signature(fn).parameters
            except (TypeError, ValueError):
                return options
            return {k: v for k, v in options.items() if not (k in params and params[k].default is not _inspect.Parameter.empty and params[k].default == v)}

        class FakeCont:
            @staticmethod
            def from_csv(path, delimiter=",", **options):
                options = _non_default(REAL_LOADERS["from_csv"], options)
                # any further reader option makes the command line read the file differently from the API call of the statement
                # (Continuum.from_csv(path, delimiter=separator)): recorded, and reported through the loading obligation
                log["load"].append(("csv", path, delimiter) + ((tuple(sorted(options.items())),) if options else ()))
                log["events"].append("load")
                return Cont(path)

            @staticmethod
            def from_rttm(path, **options):
                options = _non_default(REAL_LOADERS["from_rttm"], options)
                log["load"].append(("rttm", path) + ((tuple(sorted(options.items())),) if options else ()))
                log["events"].append("load")
                return Cont(path)

        def rec(name):
            class R:
                def __init__(self, *a, **k):
                    self.a, self.k, self.name = a, k, name
                    log["cat" if name in ("lev", "num") else ("combined" if name == "comb" else "sampler")].append(self)
                    # the attributes client code may read on the real objects
                    if name in ("lev", "num"):
                        self.categories = SortedSet((list(a) + list(k.values()))[0])
                    elif name == "comb":
                        cdm = k.get("cat_dissim", a[4] if len(a) > 4 else None)
                        self.categories = None if cdm is None else cdm.categories
                        self.alpha, self.beta, self.delta_empty = k.get("alpha"), k.get("beta"), k.get("delta_empty")
            return R
        printed, csv_rows, json_docs, opened = [], [], [], []

        class W:
            def __init__(self, fh, delimiter=","):
                self.delimiter = delimiter

            def writerow(self, row):
                csv_rows.append(list(row))

            def writerows(self, rows):
                for r in rows:
                    self.writerow(r)

        def json_dump(obj, fh, **k):
            def walk(x):
                if isinstance(x, dict):
                    for kk, v in x.items():
                        if not isinstance(kk, (str, int, float, bool, type(None))):
                            raise TypeError(f"keys must be str, int, float, bool or None, not {type(kk).__name__}")
                        walk(v)
                elif isinstance(x, (list, tuple)):
                    for v in x:
                        walk(v)
                elif isinstance(x, SymNum):
                    if x.np_kind == "float32":
                        raise TypeError("Object of type float32 is not JSON serializable")
                elif not isinstance(x, (str, int, float, bool, type(None))):
                    raise TypeError(f"Object of type {type(x).__name__} is not JSON serializable")
            walk(obj)
            json_docs.append(obj)

        class FH:
            def __enter__(self):
                return self

            def __exit__(self, *a):
                return False
        saved = {k: cli.__dict__.get(k) for k in ("Continuum", "LevenshteinCategoricalDissimilarity", "NumericalCategoricalDissimilarity", "ShuffleContinuumSampler",
                                                  "CombinedCategoricalDissimilarity", "print", "csv", "json", "open")}
        saved_parse = cli.argparser.parse_args
        saved_gk, saved_ex = al.Alignment.gamma_k_disorder, co.ThreadPoolExecutor
        cli.Continuum = FakeCont
        cli.LevenshteinCategoricalDissimilarity, cli.NumericalCategoricalDissimilarity = rec("lev"), rec("num")
        cli.ShuffleContinuumSampler, cli.CombinedCategoricalDissimilarity = rec("shuffle"), rec("comb")
        cli.print = lambda *a, **k: printed.append(" ".join(str(x) for x in a))
        cli.csv = types.SimpleNamespace(writer=W)
        cli.json = types.SimpleNamespace(dump=json_dump)
        cli.open = lambda p, mode="r", *a, **k: (opened.append((str(p), mode)), FH())[1]
        cli.argparser.parse_args = lambda *a, **k: args
        al.Alignment.gamma_k_disorder = gk_spy
        co.ThreadPoolExecutor = stubs.DeferredExecutor.make()
        try:
            cli.pygamma_cmd()
        finally:
            for k, v in saved.items():
                if v is None:
                    cli.__dict__.pop(k, None)
                else:
                    setattr(cli, k, v)
            cli.argparser.parse_args = saved_parse
            al.Alignment.gamma_k_disorder, co.ThreadPoolExecutor = saved_gk, saved_ex
            del SymNum.__format__
            SymNum.__str__ = object.__str__
        o = []
        # ---- options reach the computation
        want_load = [("csv", f, ";") if fmt == "csv" else ("rttm", f) for f in files]
        o.append(Obl("each-file-loaded-with-the-requested-reader-and-separator", log["load"] == want_load, rz))
        o.append(Obl("seed-set-iff-given-and-before-any-computation", (rng.seeded == ([A["seed"]] if seeded else [])) and
                     (not seeded or log["events"].index("seed") < log["events"].index("compute")), rz))
        o.append(Obl("one-computation-per-file", len(files) == len(log["gamma"]), rz))
        want_cat = {"absolute": None, "numerical": "num", "levenshtein": "lev", "ordinal": "num"}.get(cfg["cd"], "?")
        for i, f in enumerate(files):
            if i >= len(log["gamma"]):
                break
            cont, kw = log["gamma"][i]
            comb = kw.get("dissimilarity")          # whatever object reaches the computation of THIS file is judged
            if getattr(comb, "name", None) != "comb":
                o.append(Obl("compute_gamma-receives-a-combined-dissimilarity", False, rz))
                continue
            # positional or keyword arguments alike: bound against the real constructor's signature
            import inspect
            try:
                k = dict(inspect.signature(saved["CombinedCategoricalDissimilarity"].__init__).bind(None, *comb.a, **comb.k).arguments)
            except TypeError:
                k = dict(comb.k)
            o.append(Obl("alpha-beta-delta_empty-forwarded", k.get("alpha") is A["alpha"] and k.get("beta") is A["beta"]
                         and k.get("delta_empty") is A["empty_delta"], rz))
            cd = k.get("cat_dissim")
            built_from = None if cd is None else list((list(cd.a) + list(cd.k.values()))[0])
            # numerical values are normalised by the largest distance between the categories it was built from: exactly this file's
            # categories; Levenshtein entries do not depend on the other categories: any superset gives the same numbers
            ok_cat = (cd is None) if want_cat is None else (cd is not None and getattr(cd, "name", None) == want_cat and
                                                                 (built_from == CATS[str(f)] or (want_cat == "lev" and set(built_from) >= set(CATS[str(f)]))))
            o.append(Obl(f"categorical-dissimilarity-option-takes-effect[{cfg['cd']}]", ok_cat, rz))
            o.append(Obl("compute_gamma-receives-the-options", cont.path is f and kw.get("precision_level") is A["precision_level"]
                         and kw.get("n_samples") is A["n_samples"] and kw.get("fast") is True and not kw.get("soft", False)
                         and kw.get("ground_truth_annotators") is None, rz))
            smp = kw.get("sampler")
            o.append(Obl("sampler-flag-takes-effect", (getattr(smp, "name", None) == "shuffle" and not smp.a and not smp.k) if mathet else smp is None, rz))
        # ---- the reported numbers are the API's numbers, per file
        def same(x, want):
            return isinstance(x, SymNum) and (x is want or x.e.eq(lift(want)) or z3.is_true(z3.simplify(x.e == lift(want)))) if isinstance(want, SymNum) else x == want

        def expected(f):
            r = results.get(f)
            if r is None:
                return None
            e = dict(gamma=r.gamma)
            if g_cat:
                e["gamma-cat"] = r.gamma_cat
            if g_k:
                e["gamma-k"] = {c: r.gamma_k(c) for c in CATS[str(f)]}
            return e
        co.ThreadPoolExecutor = stubs.DeferredExecutor.make()
        al.Alignment.gamma_k_disorder = gk_spy
        try:
            exp = {f: expected(f) for f in files}
        finally:
            al.Alignment.gamma_k_disorder, co.ThreadPoolExecutor = saved_gk, saved_ex
        if cfg["out"] == "print":
            lines = list(printed)
            ok = True
            detail = []
            pos = 0
            for f in files:
                e = exp[f]
                want_lines = [("file", str(f)), ("gamma=", e["gamma"])]
                if g_cat:
                    want_lines.append(("gamma-cat=", e["gamma-cat"]))
                if g_k:
                    for c in CATS[str(f)]:
                        want_lines.append((f"gamma-k('{c}')=", e["gamma-k"][c]))
                for kind_, v in want_lines:
                    if pos >= len(lines):
                        ok = False
                        break
                    ln = lines[pos]
                    pos += 1
                    if kind_ == "file":
                        ok = ok and ln == v
                    else:
                        m_ = TOK.search(ln)
                        if not ln.startswith(kind_):
                            ok = False
                        elif m_:
                            ok = ok and same(reg[int(m_.group(1))], v)
                        else:
                            ok = ok and isinstance(v, int) and ln == f"{kind_}{v}"
            ok = ok and pos == len(lines)
            o.append(Obl("printed-numbers==API-results-per-file", ok, rz))
            o.append(Obl("nothing-written-in-print-mode", not csv_rows and not json_docs, rz))
        elif cfg["out"] == "csv":
            labels = ["filename", "gamma"] + (["gamma-cat"] if g_cat else []) + (["gamma-k"] if g_k else [])
            ok = len(csv_rows) == 1 + len(files) and csv_rows[0] == labels and opened == [("out.csv", "w")]
            for i, f in enumerate(files):
                if not ok:
                    break
                row, e = csv_rows[1 + i], exp[f]
                wantrow = [f, e["gamma"]] + ([e["gamma-cat"]] if g_cat else []) + ([e["gamma-k"]] if g_k else [])
                ok = len(row) == len(wantrow) and row[0] == f and same(row[1], wantrow[1])
                j = 2
                if ok and g_cat:
                    ok = same(row[j], wantrow[j])
                    j += 1
                if ok and g_k:
                    ok = isinstance(row[j], dict) and sorted(row[j]) == CATS[str(f)] and all(same(row[j][c], wantrow[j][c]) for c in CATS[str(f)])
            o.append(Obl("csv-numbers==API-results-per-file", ok, rz))
        else:
            ok = len(json_docs) == 1 and opened == [("out.json", "w")]
            if ok:
                doc = json_docs[0]
                ok = sorted(doc) == sorted(str(f) for f in files)
                for f in files:
                    if not ok:
                        break
                    e, d = exp[f], doc[str(f)]
                    ok = sorted(d) == sorted(e) and same(d["gamma"], e["gamma"]) and (not g_cat or same(d["gamma-cat"], e["gamma-cat"])) and \
                        (not g_k or (sorted(d["gamma-k"]) == CATS[str(f)] and all(same(d["gamma-k"][c], e["gamma-k"][c]) for c in CATS[str(f)])))
            o.append(Obl("json-numbers==API-results-per-file", ok, rz))
        return o
    return h


# ---------------------------------------------------------------------------------------------
def replay(case):
    """The real command line against the API on real files, same seed and options; all three outputs.  Option values: one generic
    set, plus - when the solver's model sits on alpha == 0 or beta == 0 - the same set with that weight at zero (a weight of
    exactly zero is the one value of these options that can change which code runs)."""
    if case.get("kind") != "cli":
        return _replay_one(case)
    sets = [(2.0, 1.5, 0.75)]
    try:
        if Fraction(case.get("beta", "1")) == 0:
            sets.append((2.0, 0.0, 0.75))
        if Fraction(case.get("alpha", "1")) == 0:
            sets.append((0.0, 1.5, 0.75))
    except (ValueError, ZeroDivisionError):
        pass
    last = None
    for abd in sets:
        last = _replay_one(case, abd)
        if last.get("reproduced"):
            last["detail"] = f"[-a {abd[0]} -b {abd[1]} -e {abd[2]}] " + str(last.get("detail"))
            return last
    return last


def _replay_one(case, abd=(2.0, 1.5, 0.75)):
    import io
    import json
    import os
    import sys
    import tempfile
    import contextlib
    import csv
    import numpy as np
    import pygamma_agreement as pa
    from pygamma_agreement import cli_apps
    F = lambda x: float(Fraction(x))     # noqa: E731
    src = os.path.join(os.environ.get("VERIF_REPO", "/repo"), "tests", "data", "AlexPaulSuzan.csv")
    if not os.path.exists(src):
        src = "/repo/tests/data/AlexPaulSuzan.csv"
    d = tempfile.mkdtemp(prefix="verif_c20_")
    bad = []
    try:
        # numeric labels so that every categorical dissimilarity applies
        (alpha, beta, delta), prec, n = abd, 0.2, 3
        argv0 = [src, "--seed", "17", "-a", str(alpha), "-b", str(beta), "-e", str(delta), "-p", str(prec), "-n", str(n), "-d", case["cd"], "-c", "-k"]
        if case.get("mathet"):
            argv0.append("-m")
        cont = pa.Continuum.from_csv(src)
        cd = case["cd"]
        cat = None
        if cd == "levenshtein":
            cat = pa.LevenshteinCategoricalDissimilarity(cont.categories)
        elif cd == "numerical":
            cat = pa.NumericalCategoricalDissimilarity(cont.categories)
        dissim = pa.CombinedCategoricalDissimilarity(alpha=alpha, beta=beta, delta_empty=delta, cat_dissim=cat)
        np.random.seed(17)
        res = cont.compute_gamma(dissimilarity=dissim, precision_level=prec, fast=True, n_samples=n,
                                 sampler=pa.ShuffleContinuumSampler() if case.get("mathet") else None)
        api = dict(gamma=float(res.gamma), gamma_cat=float(res.gamma_cat), gamma_k={c: float(res.gamma_k(c)) for c in cont.categories})

        def run(extra):
            old = sys.argv
            sys.argv = ["pygamma-agreement"] + argv0 + extra
            buf = io.StringIO()
            try:
                with contextlib.redirect_stdout(buf):
                    cli_apps.pygamma_cmd()
            finally:
                sys.argv = old
            return buf.getvalue()

        def close(a, b):
            if a == b or (a != a and b != b):       # equal infinities / both NaN (degenerate option values)
                return True
            return abs(a - b) <= 1e-5 * max(1.0, abs(a), abs(b))
        try:
            out = run([])
            vals = dict(l.split("=", 1) for l in out.splitlines() if "=" in l)
            if not close(float(vals["gamma"]), api["gamma"]) or not close(float(vals["gamma-cat"]), api["gamma_cat"]):
                bad.append(f"printed gamma/gamma-cat {vals.get('gamma')}/{vals.get('gamma-cat')} != API {api['gamma']}/{api['gamma_cat']} (-d {cd})")
            for c in cont.categories:
                if not close(float(vals[f"gamma-k('{c}')"]), api["gamma_k"][c]):
                    bad.append(f"printed gamma-k('{c}') {vals[f'''gamma-k('{c}')''']} != API {api['gamma_k'][c]}")
        except Exception as ex:     # noqa: BLE001
            bad.append("print mode raised " + repr(ex)[:200])
        try:
            pj = os.path.join(d, "o.json")
            run(["-j", pj])
            doc = json.load(open(pj))[src]
            if not close(doc["gamma"], api["gamma"]) or not close(doc["gamma-cat"], api["gamma_cat"]):
                bad.append(f"JSON gamma {doc['gamma']} != API {api['gamma']}")
        except Exception as ex:     # noqa: BLE001
            bad.append("JSON mode raised " + repr(ex)[:200])
        try:
            # a hand-written file: blanks after the separator belong to the field (the API keeps them, so must the command line);
            # ' ab' and 'ab' are two categories, ' ann3' is an annotator of its own
            src_sp = os.path.join(d, "spaced.csv")
            with open(src_sp, "w") as f:
                f.write("ann1,ab,0,5\nann1, ab,6,10\nann1,cd,12,18\nann2, ab,0.5,5.5\nann2,ab,6,11\nann2,cd,12,17\n ann3,ab,1,5\n ann3,cd,6.5,10\n ann3, ab,13,18\n")
            c_sp = pa.Continuum.from_csv(src_sp)
            cat_sp = pa.LevenshteinCategoricalDissimilarity(c_sp.categories) if cd == "levenshtein" else None
            if cd != "numerical":
                np.random.seed(17)
                r_sp = c_sp.compute_gamma(dissimilarity=pa.CombinedCategoricalDissimilarity(alpha=alpha, beta=beta, delta_empty=delta, cat_dissim=cat_sp),
                                          precision_level=prec, fast=True, n_samples=n, sampler=pa.ShuffleContinuumSampler() if case.get("mathet") else None)
                keep = list(argv0)
                argv0[0] = src_sp
                try:
                    pj_sp = os.path.join(d, "osp.json")
                    run(["-j", pj_sp])
                    doc_sp = json.load(open(pj_sp))[src_sp]
                finally:
                    argv0[:] = keep
                if sorted(doc_sp.get("gamma-k", {})) != sorted(c_sp.categories) or not close(doc_sp["gamma"], float(r_sp.gamma)):
                    bad.append(f"hand-written file with blanks after the separator: command line categories {sorted(doc_sp.get('gamma-k', {}))} gamma {doc_sp['gamma']}, "
                               f"API categories {list(c_sp.categories)} gamma {float(r_sp.gamma)}")
        except Exception as ex:     # noqa: BLE001
            bad.append("spaced-file run raised " + repr(ex)[:200])
        if case.get("files", 1) >= 2:
            # two different input files in one invocation: each file's entry must be its own API result
            try:
                # a second file whose categories are a strict subset of the first one's, with another largest distance
                # (both called in.csv, in two directories: results are per input *path*)
                os.makedirs(os.path.join(d, "wide")), os.makedirs(os.path.join(d, "narrow"))
                src_wide, src2 = os.path.join(d, "wide", "in.csv"), os.path.join(d, "narrow", "in.csv")
                with open(src_wide, "w") as f:
                    for a_, rows_ in (("ann1", [("1", 0, 5), ("2", 6, 10), ("10", 12, 18)]), ("ann2", [("1", 0.5, 5.5), ("10", 6, 11), ("2", 12, 17)]),
                                      ("ann3", [("2", 1, 5), ("2", 6.5, 10), ("10", 13, 18)])):
                        for lab_, s_, e_ in rows_:
                            f.write(f"{a_},{lab_},{s_},{e_}\n")
                with open(src2, "w") as f:
                    for a_, rows_ in (("ann1", [("1", 0, 5), ("2", 6, 10), ("1", 12, 18)]), ("ann2", [("2", 0.5, 5.5), ("2", 6, 11), ("1", 12, 17)]),
                                      ("ann3", [("1", 1, 5), ("2", 6.5, 10), ("2", 13, 18)])):
                        for lab_, s_, e_ in rows_:
                            f.write(f"{a_},{lab_},{s_},{e_}\n")
                src_keep = src
                src = src_wide
                cont_w = pa.Continuum.from_csv(src)
                cat = None
                if cd == "levenshtein":
                    cat = pa.LevenshteinCategoricalDissimilarity(cont_w.categories)
                elif cd == "numerical":
                    cat = pa.NumericalCategoricalDissimilarity(cont_w.categories)
                c2 = pa.Continuum.from_csv(src2)
                cat2 = None
                if cd == "levenshtein":
                    cat2 = pa.LevenshteinCategoricalDissimilarity(c2.categories)
                elif cd == "numerical":
                    cat2 = pa.NumericalCategoricalDissimilarity(c2.categories)
                np.random.seed(17)
                r1 = pa.Continuum.from_csv(src).compute_gamma(dissimilarity=pa.CombinedCategoricalDissimilarity(alpha=alpha, beta=beta, delta_empty=delta, cat_dissim=cat),
                                                              precision_level=prec, fast=True, n_samples=n,
                                                              sampler=pa.ShuffleContinuumSampler() if case.get("mathet") else None)
                g1 = float(r1.gamma)
                r2 = c2.compute_gamma(dissimilarity=pa.CombinedCategoricalDissimilarity(alpha=alpha, beta=beta, delta_empty=delta, cat_dissim=cat2),
                                      precision_level=prec, fast=True, n_samples=n, sampler=pa.ShuffleContinuumSampler() if case.get("mathet") else None)
                g2 = float(r2.gamma)
                pj2 = os.path.join(d, "o2.json")
                argv_keep = list(argv0)
                argv0[0] = src
                argv0.insert(1, src2)
                try:
                    run(["-j", pj2])
                    doc = json.load(open(pj2))
                    out2 = run([])
                finally:
                    argv0[:] = argv_keep
                if not close(doc[src]["gamma"], g1) or not close(doc[src2]["gamma"], g2):
                    bad.append(f"two files: JSON gammas {doc[src]['gamma']}, {doc[src2]['gamma']} != API {g1}, {g2}")
                # a file with ONE category (and a unit that stays unaligned): every measure still comes from the computation
                src3 = os.path.join(d, "single.csv")
                with open(src3, "w") as f:
                    for a_, rows_ in (("ann1", [("1", 0, 5), ("1", 6, 10), ("1", 12, 18), ("1", 30, 34)]), ("ann2", [("1", 0.5, 5.5), ("1", 6, 11), ("1", 12, 17)]),
                                      ("ann3", [("1", 1, 5), ("1", 6.5, 10), ("1", 13, 18)])):
                        for lab_, s_, e_ in rows_:
                            f.write(f"{a_},{lab_},{s_},{e_}\n")
                c3 = pa.Continuum.from_csv(src3)
                cat3 = pa.LevenshteinCategoricalDissimilarity(c3.categories) if cd == "levenshtein" else \
                    pa.NumericalCategoricalDissimilarity(c3.categories) if cd == "numerical" else None
                np.random.seed(17)
                r3 = c3.compute_gamma(dissimilarity=pa.CombinedCategoricalDissimilarity(alpha=alpha, beta=beta, delta_empty=delta, cat_dissim=cat3),
                                      precision_level=prec, fast=True, n_samples=n, sampler=pa.ShuffleContinuumSampler() if case.get("mathet") else None)
                want3 = dict(gamma=float(r3.gamma), gamma_cat=float(r3.gamma_cat), gamma_k=float(r3.gamma_k("1")))
                pj3 = os.path.join(d, "o3.json")
                argv0[0] = src3
                try:
                    run(["-j", pj3])
                    doc3 = json.load(open(pj3))[src3]
                finally:
                    argv0[:] = argv_keep
                if not close(doc3["gamma"], want3["gamma"]) or not close(doc3["gamma-cat"], want3["gamma_cat"]) or not close(doc3["gamma-k"]["1"], want3["gamma_k"]):
                    bad.append(f"single-category file: JSON {doc3} != API {want3}")
                gs = [float(l.split("=", 1)[1]) for l in out2.splitlines() if l.startswith("gamma=")]
                if len(gs) != 2 or not close(gs[0], g1) or not close(gs[1], g2):
                    bad.append(f"two files: printed gammas {gs} != API {[g1, g2]}")
            except Exception as ex:     # noqa: BLE001
                bad.append("two-file run raised " + repr(ex)[:200])
        try:
            pc = os.path.join(d, "o.csv")
            run(["-o", pc])
            rows = list(csv.reader(open(pc)))
            if not close(float(rows[1][1]), api["gamma"]) or not close(float(rows[1][2]), api["gamma_cat"]):
                bad.append(f"CSV gamma {rows[1][1]} != API {api['gamma']}")
        except Exception as ex:     # noqa: BLE001
            bad.append("CSV mode raised " + repr(ex)[:200])
    finally:
        import shutil
        shutil.rmtree(d, ignore_errors=True)
    return dict(reproduced=bool(bad), detail="; ".join(bad[:3])[:600])
