"""Shared pieces of the harnesses: independent oracle, abstract dissimilarity, continuum builders,
the alignment-pipeline harness H_align, and real-build replay helpers."""
import itertools
import sys
import types
from fractions import Fraction

import z3

from symx import core, cpstub
from symx.core import SymNum, SymBool, Obl, lift, lb, mval, Ctx

# mixed case on purpose: the case-sensitive order (the container's) is the list order, the case-insensitive order is not
ANN = ["B0", "a1", "c2", "d3", "e4"]


# ---------------------------------------------------------------------------------------------
# independent oracle (written from the statements, never calls the repository)
# ---------------------------------------------------------------------------------------------
def all_tuples(sizes):
    """every combination of one-unit-or-empty per annotator (empty = index sizes[a]), all-empty excluded"""
    out = []
    for t in itertools.product(*[range(s + 1) for s in sizes]):
        if all(t[a] == sizes[a] for a in range(len(sizes))):
            continue
        out.append(t)
    return out


def exact_covers(sizes):
    """all partitions of the unit set into tuples with one slot per annotator"""
    n = len(sizes)
    units = [(a, j) for a in range(n) for j in range(sizes[a])]
    res = []

    def rec(remaining, acc):
        if not remaining:
            res.append(list(acc))
            return
        a0, j0 = remaining[0]
        rest = remaining[1:]
        opts = []
        for a in range(n):
            if a == a0:
                opts.append([j0])
            elif a < a0:
                opts.append([sizes[a]])
            else:
                opts.append([sizes[a]] + [j for (aa, j) in rest if aa == a])
        for t in itertools.product(*opts):
            used = {(a, t[a]) for a in range(n) if t[a] != sizes[a]}
            rec([u for u in remaining if u not in used], acc + [t])

    rec(units, [])
    return res


def minimal_covers(sizes, cap=200000):
    """inclusion-minimal sets of tuples covering every unit at least once"""
    n = len(sizes)
    tuples = all_tuples(sizes)
    units = [(a, j) for a in range(n) for j in range(sizes[a])]
    cov = [frozenset((a, t[a]) for a in range(n) if t[a] != sizes[a]) for t in tuples]
    full = frozenset(units)
    res = set()

    def rec(chosen, covered, start_unit):
        if covered == full:
            res.add(frozenset(chosen))
            return
        if len(res) > cap:
            raise RuntimeError("too many covers")
        # first uncovered unit must be covered by some tuple
        u = next(x for x in units if x not in covered)
        for k, c in enumerate(cov):
            if u in c and k not in chosen:
                rec(chosen | {k}, covered | c, None)

    rec(frozenset(), frozenset(), None)
    out = []
    for s in res:
        # keep only inclusion-minimal ones
        if not any(o < s for o in res):
            out.append([tuples[k] for k in sorted(s)])
    return out


def tuple_cost(t, sizes, de, pair):
    """definitional disorder of one unitary alignment: mean over the C(n,2) annotator pairs"""
    n = len(sizes)
    c2n = n * (n - 1) // 2
    tot = 0
    for a in range(n):
        for b in range(a):
            if t[a] == sizes[a] or t[b] == sizes[b]:
                tot = tot + de
            else:
                tot = tot + pair((a, t[a]), (b, t[b]))
    return tot / c2n


def alignment_cost(tuples, sizes, de, pair):
    n = len(sizes)
    tot = 0
    for t in tuples:
        tot = tot + tuple_cost(t, sizes, de, pair)
    return tot / Fraction(sum(sizes), n)


# ---------------------------------------------------------------------------------------------
# dissimilarities
# ---------------------------------------------------------------------------------------------
class PairTable:
    """one free non-negative symbol per unordered pair of units (keyed by global unit id)"""

    def __init__(self, ctx, zero_diag=True):
        self.ctx = ctx
        self.D = {}

    def val(self, i, j):
        i, j = sorted((int(i), int(j)))
        if i == j:
            return 0
        if (i, j) not in self.D:
            self.D[(i, j)] = self.ctx.fresh(f"d_{i}_{j}", lo=0)
        return self.D[(i, j)]


def make_abstract_dissim(ns, ctx, de, categories):
    """A subclass of the repository's AbstractDissimilarity whose d_mat / d return the PairTable's
    symbol for the two units (identified by their unique category index)."""
    table = PairTable(ctx)

    class AbstractD(ns.ds.AbstractDissimilarity):
        def __init__(self):
            self.table = table
            # the real constructor runs (whatever state it sets up is set up), then the symbolic delta_empty is put back
            ns.ds.AbstractDissimilarity.__init__(self, categories=categories, delta_empty=1.0)
            self.delta_empty = de
            self.categories = categories
            self.d_mat = self._dm

        def compile_d_mat(self):
            return self._dm

        def _dm(self, u1, u2):
            return table.val(core.concretize(u1[3]) if isinstance(u1[3], SymNum) else int(u1[3]),
                             core.concretize(u2[3]) if isinstance(u2[3], SymNum) else int(u2[3]))

        def d(self, a, b):
            if a.annotation is None or b.annotation is None:
                return 10 ** 6      # the -inf sentinel unit of get_first_window: unreachable
            return table.val(categories.index(a.annotation), categories.index(b.annotation))

    return AbstractD(), table


def pos_formula(u, v, de):
    """documented positional-sporadic value, from the statement"""
    (s1, e1), (s2, e2) = u, v
    r = (abs(s1 - s2) + abs(e1 - e2)) / ((e1 - s1) + (e2 - s2))
    return r * r * de


# ---------------------------------------------------------------------------------------------
# continuum builders
# ---------------------------------------------------------------------------------------------
def uid_label(k):
    return f"c{k:03d}"


def build_continuum(ns, ctx, sizes, coords="fixed", labels="unique", min_dur=None, ordered=True):
    """Builds a real Continuum through the public `add`.  Returns (continuum, units) where
    units[(a, j)] = dict(start, end, label, uid).  With coords='sym' every start/end is a free
    real with end - start > min_dur (default: pyannote's SEGMENT_PRECISION) and, if `ordered`,
    units of one annotator are listed by strictly increasing start (WLOG: the container sorts)."""
    Segment = ns.Segment
    c = ns.co.Continuum()
    info = {}
    uid = 0
    if min_dur is None:
        min_dur = ns.pseg.SEGMENT_PRECISION
    for a, s in enumerate(sizes):
        c.add_annotator(ANN[a])
        prev = None
        for j in range(s):
            if coords == "sym":
                st = ctx.fresh(f"s{uid}_")
                en = ctx.fresh(f"e{uid}_")
                ctx.solver.add(en.e - st.e > lift(min_dur))
                if ordered and prev is not None:
                    # "weak": ties on the start allowed (the container then orders by end, then label: distinct units may tie on position)
                    ctx.solver.add(st.e >= prev.e if ordered == "weak" else st.e > prev.e)
                prev = st
            else:
                st, en = core.const(10 * j + a), core.const(10 * j + a + 5)
            if labels == "unique":
                lab = uid_label(uid)
            elif labels == "none":
                lab = None
            elif isinstance(labels, (list, tuple)):
                lab = labels[uid]
            else:
                lab = labels
            c.add(ANN[a], Segment(st, en), lab)
            info[(a, j)] = dict(start=st, end=en, label=lab, uid=uid)
            uid += 1
    if ordered == "weak" and coords == "sym":
        # distinct units: two units of one annotator with the same label differ in a bound
        for a, sz in enumerate(sizes):
            for j1 in range(sz):
                for j2 in range(j1):
                    r1, r2 = info[(a, j1)], info[(a, j2)]
                    if r1["label"] == r2["label"]:
                        ctx.solver.add(z3.Or(r1["start"].e != r2["start"].e, r1["end"].e != r2["end"].e))
    ctx.model = None
    if ordered == "weak":
        # with ties the container's order need not be the construction order: key the records by the container's positions
        rekeyed = {}
        for a, s in enumerate(sizes):
            recs = [info[(a, j)] for j in range(s)]
            for k, u in enumerate(c._annotations[ANN[a]]):
                rec = next(r for r in recs if r["start"] is u.segment.start and r["end"] is u.segment.end and r["label"] == u.annotation)
                rekeyed[(a, k)] = rec
        info = rekeyed
    return c, info


def set_backend(backend):
    """'cbc': cylp importable; 'glpk_import': import fails; 'glpk_solvererror': CBC solve raises."""
    fail = []
    if backend == "cbc":
        sys.modules["cylp"] = types.ModuleType("cylp")
    elif backend == "glpk_import":
        sys.modules["cylp"] = None
    elif backend == "glpk_solvererror":
        sys.modules["cylp"] = types.ModuleType("cylp")
        fail = [cpstub.SolverError("CBC failed")]
    else:
        raise ValueError(backend)
    return cpstub.reset(fail=fail)


def fr(x):
    """Fraction -> replay-friendly float/str pair"""
    f = Fraction(x)
    return float(f)


def frs(x):
    f = Fraction(x)
    return f"{f.numerator}/{f.denominator}"


def unit_index(units_list, unit):
    for k, u in enumerate(units_list):
        if u is unit:
            return k
    return None


def real_continuum(spec):
    """(real build) spec = list of [annotator, start, end, label]; annotators = optional list"""
    import pygamma_agreement as pa
    from pyannote.core import Segment
    c = pa.Continuum()
    for a in spec.get("annotators", []):
        c.add_annotator(a)
    for a, s, e, lab in spec["units"]:
        c.add(a, Segment(float(Fraction(s)), float(Fraction(e))), lab)
    return c
