"""C07 -- candidate unitary alignments are exactly the tuples under the n*delta_empty cut.

Encoded: AbstractDissimilarity._get_all_valid_alignments (+ iter_tuples, extend_right_*), run as the
plain Python it is written as, on symbolic pair values and symbolic delta_empty.
"""
import ast
import inspect
import textwrap
from fractions import Fraction

import numpy as real_np
import z3

from symx import core, fp
from symx.core import Obl, SymNum, lift, lb, mval
from . import common

META = dict(
    level="model_checking",
    technique="bounded symbolic execution (z3, path forking) of the real kernel source: over the reals (all configurations) and in IEEE binary32/binary64 arithmetic (z3 FloatingPoint theory, ieee configurations)",
    design_ref="section 4 / C07",
    bounds=dict(
        quick="size vectors (1,1),(2,1),(0,2),(2,2),(3,2),(1,1,1),(2,1,1),(2,0,1); scaled buffer capacity C0 in {2,3,4,5} on (2,2),(3,1); "
              "all pair values >= 0 and delta_empty > 0 symbolic reals; public path valid_alignments(continuum) for ordinal / precomputed / combined-ordinal / levenshtein "
              "dissimilarities declaring more categories than the continuum uses, on (2,1),(1,1,1) against the unit-to-unit form d(), and for the absolute / default combined dissimilarity on continua mixing unlabelled units with units of the first and last category; IEEE mode: (2,1),(1,1,1) with every pair value a symbolic binary32 in [0, 2^22] and delta_empty a symbolic binary32 in (0, 1024]",
        thorough="+ (3,3),(2,2,1),(1,1,1,1),(4,2); scaled capacity C0 in {1,2,3,5} on (3,2),(2,2,1); semi-symbolic (2,2,2) and (1,1,1,1,1); "
                 "real capacity 10000 crossed concretely on the real build (2x125 units) as translator validation; IEEE mode: + (2,2), and (1,1,1,1),(1,1,1,1,1) with concrete far-apart pairs"),
    outside="more than 4 fully symbolic annotators or > 12 symbolic branch decisions per run; float32 rounding of sums outside the IEEE configurations; "
            "int16 index overflow above 32767 units per annotator",
    stubs=["numba.njit = identity (kernel runs as plain Python)", "np float arrays = object arrays of z3 reals",
           "np.empty float elements = arbitrary values (fresh symbols)", "d_mat = one free symbol >= 0 per unit pair (any symmetric dissimilarity)"],
    assumptions=["scaled-capacity configurations: every integer literal >= 1000 of the kernel is scaled with the capacity (10000 -> C0, 30000 -> 3 C0 ...)",
                 "real-number arithmetic instead of float32 (all but the ieee configurations)", "ieee configurations: round-to-nearest-even, numba promotion int64 (op) float32 -> float64, "
                 "explicit-signature arguments converted on entry; validated on 70 knife-edge inputs against the real numba kernel each run", "d_mat symmetric, d_mat >= 0, delta_empty > 0",
                 "scaled-capacity sub-check substitutes the literal in `chunk_size = 10000` only"],
    cfg_budget_s=dict(quick=150, thorough=900),
    claim="For every size vector in the bound, all non-negative real pair dissimilarities and every delta_empty > 0 (solver-decided on every path of "
          "the real kernel source): the candidates are pairwise distinct, never the all-empty tuple, a tuple is a candidate iff its pair sum is <= "
          "C(n,2)*n*delta_empty, and each carries sum/C(n,2); the same with the buffer capacity scaled down so that growth, regrowth and "
          "'full at the last tuple' occur inside the bound. In IEEE arithmetic (ieee configurations, numba's width rules: binary32 pair values and delta_empty, binary64 "
          "running sum and cut): candidates are distinct, the all-empty tuple is not one, every tuple leaving one unit alone IS one, and a pruned tuple has "
          "at least one pair costing more than delta_empty - for every binary32 input in the bound. Nothing is claimed outside the bound.",
    trusted="z3; the symbolic build (numba.njit = identity, float arrays as object arrays) is validated on every run against the real numba build on "
            "concrete inputs, including a 2x140-unit continuum that crosses the real 10000/15000 buffer boundaries; real arithmetic instead of float32",
)


# labels of the "unlabelled" configurations, per annotator and unit: every annotator pair has an (unlabelled, last category) or an
# (unlabelled, first category) couple of units, and one couple of equal labels
LABS_UNL = [[None, "d"], ["d", None], ["b", "d"], [None, "b"], ["d", "b"]]


def configs(tier):
    out = []
    q = [(1, 1), (2, 1), (0, 2), (2, 2), (3, 2), (1, 1, 1), (2, 1, 1), (2, 0, 1)]
    for s in q:
        out.append(dict(key=f"sizes={s}", sizes=list(s), chunk=None, cost=len(common.all_tuples(s))))
    # C0 >= 2: the growth step is C0 // 2, which is 0 for C0 = 1 (an artefact of scaling, 10000 // 2 != 0)
    for s, c0 in [((2, 2), 2), ((2, 2), 3), ((2, 2), 4), ((3, 1), 2), ((3, 1), 3), ((2, 1, 1), 5), ((3, 2), 2)]:
        out.append(dict(key=f"sizes={s},C0={c0}", sizes=list(s), chunk=c0, cost=len(common.all_tuples(s)) * 2))
    # the public path valid_alignments(continuum) = array building + kernel, for dissimilarities that DECLARE more categories than the
    # continuum uses (labels a..d declared, b and d used): candidates against the unit-to-unit form d() of the same dissimilarity
    for dk in ("ordinal", "precomputed", "combined-ordinal", "levenshtein", "combined-symbolic-weights"):
        for s in [(2, 1), (1, 1, 1)]:
            out.append(dict(key=f"valid_alignments,declared-superset,{dk},sizes={s}", sizes=list(s), declared=dk, chunk=None, cost=60))
    # ... and for dissimilarities whose categories are the continuum's own, a continuum mixing UNLABELLED units with units of the first and of
    # the last category (an unlabelled unit differs from every labelled one, whatever index stands for "no category" in the arrays)
    for dk in ("absolute", "combined-symbolic-weights"):
        for s in [(2, 1), (1, 1, 1)]:
            out.append(dict(key=f"valid_alignments,unlabelled-next-to-first-and-last-category,{dk},sizes={s}", sizes=list(s), declared=dk, unlabelled=True,
                            chunk=None, cost=60))
    # IEEE mode (symx.fp): the same kernel source on binary32 pair values / delta_empty with numba's width rules - what the
    # real-arithmetic runs above cannot see (a bound that is right over the reals and wrong after rounding)
    for s, far in [((2, 1), False), ((1, 1, 1), False)] + ([((2, 2), False), ((1, 1, 1, 1), True), ((1, 1, 1, 1, 1), True)] if tier == "thorough" else []):
        out.append(dict(key=f"ieee,sizes={s}" + (",pairs-far-apart" if far else ""), sizes=list(s), ieee=True, far=far, chunk=None, timeout_ms=120000,
                        cost=2000 if not far else 300, split=16 if not far else None))
    if tier == "thorough":
        for s in [(3, 3), (2, 2, 1), (1, 1, 1, 1), (4, 2), (0, 1, 2), (3, 1, 1)]:
            out.append(dict(key=f"sizes={s}", sizes=list(s), chunk=None, cost=len(common.all_tuples(s)) * 4))
        for s, c0 in [((3, 2), 3), ((3, 2), 5), ((2, 2, 1), 3), ((2, 2, 1), 5), ((3, 2), 4), ((2, 2, 1), 2)]:
            out.append(dict(key=f"sizes={s},C0={c0}", sizes=list(s), chunk=c0, cost=len(common.all_tuples(s)) * 5))
        for s in [(2, 2, 2), (1, 1, 1, 1, 1), (3, 3, 1)]:
            out.append(dict(key=f"sizes={s},semi", sizes=list(s), chunk=None, semi=6, cost=400))
    return out


_SCALED = {}


def scaled_kernel(ns, c0):
    """The real kernel with the literal in `chunk_size = 10000` replaced by c0 (AST substitution,
    applied only if exactly that statement is found)."""
    if c0 in _SCALED:
        return _SCALED[c0]
    fn = ns.ds.AbstractDissimilarity.__dict__["_get_all_valid_alignments"]
    fn = fn.__func__ if isinstance(fn, staticmethod) else fn
    src = textwrap.dedent(inspect.getsource(fn))
    tree = ast.parse(src)
    fdef = tree.body[0]
    fdef.decorator_list = []
    hits = 0
    for node in ast.walk(fdef):
        if (isinstance(node, ast.Assign) and len(node.targets) == 1 and isinstance(node.targets[0], ast.Name)
                and node.targets[0].id == "chunk_size" and isinstance(node.value, ast.Constant)
                and node.value.value == 10000):
            node.value = ast.Constant(c0)
            hits += 1
    if hits != 1:
        _SCALED[c0] = None
        return None
    # every OTHER large integer literal of the kernel (>= 1000: a capacity, a cap on the growth ...) is scaled by the same factor,
    # so that whatever is expressed relative to the buffer capacity happens inside the bound as well
    for node in ast.walk(fdef):
        if isinstance(node, ast.Constant) and type(node.value) is int and node.value >= 1000 and node.value != c0:
            node.value = max(1, (node.value * c0) // 10000)
    ast.fix_missing_locations(tree)
    glb = ns.ds.__dict__
    loc = {}
    exec(compile(tree, ns.files["dissimilarity"], "exec"), glb, loc)
    _SCALED[c0] = loc[fdef.name]
    return _SCALED[c0]


SEMI_VALUES = [0, Fraction(1, 2), 3, 7, 40]


def harness(cfg, ns):
    sizes = tuple(cfg["sizes"])
    n = len(sizes)
    c2n = n * (n - 1) // 2
    offs = [sum(sizes[:a]) for a in range(n)]
    nunits = sum(sizes)
    kernel = ns.ds.AbstractDissimilarity._get_all_valid_alignments if cfg.get("chunk") is None \
        else scaled_kernel(ns, cfg["chunk"])
    tuples_all = list(__import__("itertools").product(*[range(s + 1) for s in sizes]))

    def h_ieee(ctx):
        ctx.fp_mode = True
        F32 = lambda x: fp.SymFP.of(real_np.float32(x))      # noqa: E731
        de = fp.fresh(ctx, "de", 32, lo=0.0, hi=1024.0, lo_open=True)
        ctx.notes["fp_prefer"] = [(de, 0.0625, 16.0)]
        D = {}

        def val(i, j):
            i, j = sorted((int(i), int(j)))
            if (i, j) not in D:
                # far: every real pair costs more than the cut allows for any delta_empty in the bound (2^21 > C(n,2) * n * 1024);
                # concrete, so that the only symbolic quantity of these configurations is delta_empty
                D[(i, j)] = F32(2.0 ** 21) if cfg.get("far") else fp.fresh(ctx, f"d_{i}_{j}", 32, lo=0.0, hi=2.0 ** 22)
            return D[(i, j)]
        ua = ns.dissimilarity.nb.typed.List()
        for a, sz in enumerate(sizes):
            arr = real_np.empty((sz, 4), dtype=object)
            for j in range(sz):
                arr[j] = [0, 1, 1, offs[a] + j]
            ua.append(arr)

        def realize(m):
            return dict(kind="ieee-kernel", sizes=list(sizes), de=fp.hexf(fp.fpval(m, de)),
                        pairs={f"{i},{j}": fp.hexf(fp.fpval(m, v)) for (i, j), v in D.items()})
        ctx.notes["realize"] = realize
        dis, al = ns.ds.AbstractDissimilarity._get_all_valid_alignments(ua, lambda u, v: val(u[3], v[3]), de)
        got = [tuple(int(x) for x in al[k]) for k in range(len(al))]
        obls = [Obl("ieee:each-once", len(set(got)) == len(got) and len(dis) == len(al), realize),
                Obl("ieee:only-well-formed-tuples", all(t in set(tuples_all) for t in got), realize)]
        for t in tuples_all:
            real_slots = [a for a in range(n) if t[a] != sizes[a]]
            if not real_slots:
                obls.append(Obl("ieee:all-empty-absent", t not in got, realize))
                continue
            if len(real_slots) == 1:
                # the tuple that leaves one unit alone must always be a candidate: without it the integer program has no feasible point
                obls.append(Obl(f"ieee:lone-unit-tuple-is-a-candidate[{t}]", t in got, realize))
                continue
            if t not in got:
                # a tuple none of whose pairs costs more than delta_empty is never pruned (whatever the rounding of the sums)
                ents = [val(offs[a] + t[a], offs[b] + t[b]) for a in real_slots for b in real_slots if b < a]
                obls.append(Obl(f"ieee:pruned=>some-pair-above-delta_empty[{t}]",
                                core.SymBool(z3.Or(*[lb(e > de) for e in ents])), realize))
        return obls

    def h_declared(ctx):
        from sortedcontainers import SortedSet
        ds, co, Segment = ns.ds, ns.co, ns.Segment
        de = ctx.fresh("de")
        ctx.solver.add(de.e > 0)
        declared, used = ["a", "b", "c", "d"], ["b", "d"]
        dk = cfg["declared"]
        if dk == "ordinal":
            D = ds.OrdinalCategoricalDissimilarity(declared, delta_empty=de)
        elif dk == "levenshtein":
            declared, used = ["ab", "b", "abc", "bd"], ["b", "bd"]
            D = ds.LevenshteinCategoricalDissimilarity(declared, delta_empty=de)
        elif dk == "precomputed":
            M = real_np.array([[0, 1, 4, 9], [1, 0, 2, 5], [4, 2, 0, 3], [9, 5, 3, 0]], dtype=float) / 4.0
            D = ds.PrecomputedCategoricalDissimilarity(SortedSet(declared), ns.np.array(M, dtype=ns.np.float32), delta_empty=de)
        elif dk == "absolute":
            D = ds.AbsoluteCategoricalDissimilarity(delta_empty=de)
        elif dk == "combined-symbolic-weights":
            # the default combined dissimilarity with ANY weights alpha, beta >= 0 (exactly 0 included: a weight of 0 is where shortcuts live)
            w_alpha, w_beta = ctx.fresh("alpha", lo=0), ctx.fresh("beta", lo=0)
            D = ds.CombinedCategoricalDissimilarity(alpha=w_alpha, beta=w_beta, delta_empty=de)
        else:
            D = ds.CombinedCategoricalDissimilarity(alpha=1, beta=2, delta_empty=de, cat_dissim=ds.OrdinalCategoricalDissimilarity(declared, delta_empty=de))
        c = co.Continuum()
        units = {}
        uid = 0
        for a, sz in enumerate(sizes):
            c.add_annotator(common.ANN[a])
            for j in range(sz):
                lab = LABS_UNL[a][j] if cfg.get("unlabelled") else used[(a + j) % 2]
                seg = Segment(core.const(3 * j + a), core.const(3 * j + a + 2))
                c.add(common.ANN[a], seg, lab)
                units[(a, j)] = co.Unit(seg, lab)
                uid += 1

        def realize(m):
            r = dict(kind="declared", declared=dk, sizes=list(sizes), de=common.frs(mval(m, de)), unlabelled=bool(cfg.get("unlabelled")))
            if dk == "combined-symbolic-weights":
                r.update(alpha=common.frs(mval(m, w_alpha)), beta=common.frs(mval(m, w_beta)))
            return r
        ctx.notes["realize"] = realize
        ctx.notes["inputs"] = [de] + ([w_alpha, w_beta] if dk == "combined-symbolic-weights" else [])
        ctx.notes["scales"] = [de]
        dis, al = D.valid_alignments(c)
        got = {}
        for k in range(min(len(al), len(dis))):
            got[tuple(int(x) for x in al[k])] = dis[k]
        obls = [Obl("declared:each-once", len(got) == len(al) == len(dis), realize)]
        for t in tuples_all:
            if all(t[a] == sizes[a] for a in range(n)):
                obls.append(Obl("declared:all-empty-absent", t not in got, realize))
                continue
            tot = 0
            for a in range(n):
                for b in range(a):
                    tot = tot + (de if (t[a] == sizes[a] or t[b] == sizes[b]) else D.d(units[(a, t[a])], units[(b, t[b])]))
            under = core.approx_le(tot, n * de * c2n, scale=de)
            over = core.approx_le(n * de * c2n, tot, scale=de)
            if t in got:
                obls.append(Obl(f"declared:present=>under-cut(by d())[{t}]", under, realize))
                obls.append(Obl(f"declared:disorder==mean-of-d()[{t}]", core.approx(got[t], tot / c2n, scale=de), realize))
            else:
                obls.append(Obl(f"declared:absent=>over-cut(by d())[{t}]", over, realize))
        return obls

    def h(ctx):
        if cfg.get("ieee"):
            return h_ieee(ctx)
        if cfg.get("declared"):
            return h_declared(ctx)
        if kernel is None:
            raise core.Cut("scaled-capacity statement `chunk_size = 10000` not found")
        de = ctx.fresh("de")
        ctx.solver.add(de.e > 0)
        table = common.PairTable(ctx)
        semi = cfg.get("semi")
        if semi:
            # semi-symbolic: all but `semi` pair values are concrete multiples of delta_empty
            import random
            rnd = random.Random(1234 + nunits)
            pairs = [(i, j) for i in range(nunits) for j in range(i)]
            rnd.shuffle(pairs)
            for (i, j) in pairs[semi:]:
                table.D[tuple(sorted((i, j)))] = de * rnd.choice(SEMI_VALUES)
        ua = ns.dissimilarity.nb.typed.List()
        for a, s in enumerate(sizes):
            arr = real_np.empty((s, 4), dtype=object)
            for j in range(s):
                arr[j] = [0, 1, 1, offs[a] + j]
            ua.append(arr)

        def d_mat(u1, u2):
            return table.val(u1[3], u2[3])

        inputs = [de]

        def realize(m):
            return dict(kind="kernel", sizes=list(sizes), de=common.frs(mval(m, de)),
                        pairs={f"{i},{j}": common.frs(mval(m, v)) for (i, j), v in table.D.items()},
                        chunk=cfg.get("chunk"))

        ctx.notes["realize"] = realize
        dis, al = kernel(ua, d_mat, de)
        inputs += list(table.D.values())
        ctx.notes["inputs"] = [x for x in inputs if isinstance(x, SymNum)]
        got = {}
        dup = False
        for k in range(min(len(al), len(dis))):
            t = tuple(int(x) for x in al[k])
            if t in got:
                dup = True
            got[t] = dis[k]

        def pair(x, y):
            return table.val(offs[x[0]] + x[1], offs[y[0]] + y[1])

        obls = [Obl("each-once", not dup and len(got) == len(al), realize),
                Obl("one-disorder-per-candidate", len(dis) == len(al), realize)]
        for t in tuples_all:
            allnull = all(t[a] == sizes[a] for a in range(n))
            if allnull:
                obls.append(Obl(f"all-empty-absent", t not in got, realize))
                continue
            tot = common.tuple_cost(t, sizes, de, pair) * c2n
            under = (tot <= n * de * c2n) if isinstance(tot, SymNum) or isinstance(de, SymNum) else None
            if t in got:
                obls.append(Obl(f"present=>under-cut[{t}]", under, realize))
                obls.append(Obl(f"disorder-value[{t}]", core.eq(got[t], tot / c2n), realize))
            else:
                obls.append(Obl(f"absent=>over-cut[{t}]", core.sym_not(under), realize))
        extra = [t for t in got if t not in set(tuples_all)]
        obls.append(Obl("only-well-formed-tuples", not extra, realize))
        return obls

    return h


# ---------------------------------------------------------------------------------------------
# real build
# ---------------------------------------------------------------------------------------------
def _real_candidates(sizes, de, pairs):
    """Runs the real kernel through PrecomputedCategoricalDissimilarity (one category per unit)."""
    import numpy as np
    import pygamma_agreement as pa
    from pyannote.core import Segment
    from sortedcontainers import SortedSet
    n = len(sizes)
    nunits = sum(sizes)
    cats = SortedSet(common.uid_label(k) for k in range(nunits))
    M = np.zeros((nunits, nunits), dtype=np.float32)
    for key, v in pairs.items():
        i, j = (int(x) for x in key.split(","))
        M[i, j] = M[j, i] = float(Fraction(v)) / float(Fraction(de))
    c = pa.Continuum()
    uid = 0
    for a, s in enumerate(sizes):
        c.add_annotator(common.ANN[a])
        for j in range(s):
            c.add(common.ANN[a], Segment(10 * j + a, 10 * j + a + 5), common.uid_label(uid))
            uid += 1
    d = pa.PrecomputedCategoricalDissimilarity(cats, M, delta_empty=float(Fraction(de)))
    dis, al = d.valid_alignments(c)
    if len(dis) != len(al):
        raise ValueError(f"{len(dis)} disorders for {len(al)} candidates")
    return {tuple(int(x) for x in al[k]): float(dis[k]) for k in range(len(al))}, len(al)


def _real_ieee_candidates(sizes, de, pairs):
    """the real numba kernel on exact binary32 inputs: d_mat is a jitted table lookup, delta_empty a float32"""
    import numpy as np
    import numba as nb
    nunits = sum(sizes)
    T = np.zeros((nunits, nunits), dtype=np.float32)
    for key, v in pairs.items():
        i, j = (int(x) for x in key.split(","))
        T[i, j] = T[j, i] = np.float32(fp.unhex(v))

    @nb.njit(nb.float32(nb.float32[:], nb.float32[:]))
    def d_mat(u1, u2):
        return T[int(u1[3]), int(u2[3])]
    import pygamma_agreement as pa
    arrs = nb.typed.List()
    uid = 0
    for a, s in enumerate(sizes):
        arr = np.zeros((s, 4), dtype=np.float32)
        for j in range(s):
            arr[j] = [0, 1, 1, uid]
            uid += 1
        arrs.append(arr)
    dis, al = pa.dissimilarity.AbstractDissimilarity._get_all_valid_alignments(arrs, d_mat, np.float32(fp.unhex(de)))
    return [tuple(int(x) for x in al[k]) for k in range(len(al))], [float(x) for x in dis]


def _replay_ieee(case):
    import itertools
    import numpy as np
    sizes = case["sizes"]
    n = len(sizes)
    offs = [sum(sizes[:a]) for a in range(n)]
    try:
        got, dis = _real_ieee_candidates(sizes, case["de"], case["pairs"])
    except Exception as ex:     # noqa: BLE001
        return dict(reproduced=True, detail="real kernel raised " + repr(ex)[:200])
    de = np.float32(fp.unhex(case["de"]))
    P = {tuple(sorted(int(x) for x in k.split(","))): np.float32(fp.unhex(v)) for k, v in case["pairs"].items()}
    bad = []
    if len(set(got)) != len(got) or len(dis) != len(got):
        bad.append("duplicate candidates")
    for t in itertools.product(*[range(s + 1) for s in sizes]):
        real_slots = [a for a in range(n) if t[a] != sizes[a]]
        if not real_slots:
            if t in got:
                bad.append("the all-empty tuple is a candidate")
        elif len(real_slots) == 1:
            if t not in got:
                bad.append(f"lone-unit tuple {t} pruned (delta_empty = {float(de)!r}): the integer program has no feasible point")
        elif t not in got:
            ents = [P.get(tuple(sorted((offs[a] + t[a], offs[b] + t[b]))), np.float32(0)) for a in real_slots for b in real_slots if b < a]
            if all(e <= de for e in ents):
                bad.append(f"tuple {t} pruned although none of its pairs costs more than delta_empty")
    return dict(reproduced=bool(bad), detail="; ".join(bad[:3]))


def _replay_declared(case):
    import itertools
    import numpy as np
    import pygamma_agreement as pa
    from pyannote.core import Segment
    from sortedcontainers import SortedSet
    sizes, dk = case["sizes"], case["declared"]
    n = len(sizes)
    c2n = n * (n - 1) // 2
    bad = []
    for de in sorted({float(Fraction(case["de"])), 1.0, 0.5}):
        declared, used = ["a", "b", "c", "d"], ["b", "d"]
        if dk == "ordinal":
            D = pa.OrdinalCategoricalDissimilarity(declared, delta_empty=de)
        elif dk == "levenshtein":
            declared, used = ["ab", "b", "abc", "bd"], ["b", "bd"]
            D = pa.LevenshteinCategoricalDissimilarity(declared, delta_empty=de)
        elif dk == "precomputed":
            M = np.array([[0, 1, 4, 9], [1, 0, 2, 5], [4, 2, 0, 3], [9, 5, 3, 0]], dtype=np.float32) / 4.0
            D = pa.PrecomputedCategoricalDissimilarity(SortedSet(declared), M, delta_empty=de)
        elif dk == "absolute":
            D = pa.AbsoluteCategoricalDissimilarity(delta_empty=de)
        elif dk == "combined-symbolic-weights":
            al_, be_ = float(Fraction(case.get("alpha", "1"))), float(Fraction(case.get("beta", "1")))
            if al_ == 0 and be_ == 0:
                al_ = 2.5
            D = pa.CombinedCategoricalDissimilarity(alpha=al_, beta=be_, delta_empty=de)
        else:
            D = pa.CombinedCategoricalDissimilarity(alpha=1, beta=2, delta_empty=de, cat_dissim=pa.OrdinalCategoricalDissimilarity(declared, delta_empty=de))
        c = pa.Continuum()
        units = {}
        for a, sz in enumerate(sizes):
            c.add_annotator(common.ANN[a])
            for j in range(sz):
                lab = LABS_UNL[a][j] if case.get("unlabelled") else used[(a + j) % 2]
                seg = Segment(3 * j + a, 3 * j + a + 2)
                c.add(common.ANN[a], seg, lab)
                units[(a, j)] = pa.Unit(seg, lab)
        try:
            dis, al = D.valid_alignments(c)
        except Exception as ex:     # noqa: BLE001
            return dict(reproduced=True, detail="valid_alignments raised " + repr(ex)[:200])
        got = {tuple(int(x) for x in al[k]): float(dis[k]) for k in range(len(al))}
        for t in itertools.product(*[range(s + 1) for s in sizes]):
            if all(t[a] == sizes[a] for a in range(n)):
                continue
            tot = sum(de if (t[a] == sizes[a] or t[b] == sizes[b]) else float(D.d(units[(a, t[a])], units[(b, t[b])])) for a in range(n) for b in range(a))
            cut = n * c2n * de
            if abs(tot - cut) < 1e-4 * cut:
                continue
            if (tot <= cut) != (t in got):
                bad.append(f"delta_empty={de}: tuple {t} candidate={t in got}, sum of d() {tot} vs cut {cut}")
            elif t in got and abs(got[t] - tot / c2n) > 1e-4 * max(1.0, tot / c2n):
                bad.append(f"delta_empty={de}: tuple {t} carries {got[t]}, mean of d() is {tot / c2n}")
    return dict(reproduced=bool(bad), detail="; ".join(bad[:3]))


def _oracle(sizes, de, pairs):
    import itertools
    n = len(sizes)
    c2n = n * (n - 1) // 2
    offs = [sum(sizes[:a]) for a in range(n)]
    de = Fraction(de)
    P = {tuple(sorted(int(x) for x in k.split(","))): Fraction(v) for k, v in pairs.items()}
    want = {}
    for t in itertools.product(*[range(s + 1) for s in sizes]):
        if all(t[a] == sizes[a] for a in range(n)):
            continue
        tot = Fraction(0)
        for a in range(n):
            for b in range(a):
                if t[a] == sizes[a] or t[b] == sizes[b]:
                    tot += de
                else:
                    tot += P.get(tuple(sorted((offs[a] + t[a], offs[b] + t[b]))), Fraction(0))
        want[t] = (tot <= c2n * n * de, tot / c2n)
    return want


def replay(case):
    if case.get("kind") == "growth-real":
        r = _growth_positional(case.get("m", 140))
        if not r["reproduced"] and r.get("rows", 0) <= (15000 if case.get("m", 140) == 140 else 33750) and r.get("expected", 0) > (15000 if case.get("m", 140) == 140 else 33750):
            return dict(reproduced=True, detail=f"{r.get('rows')} candidates returned, {r.get('expected')} expected: " + r["detail"])
        if not r["reproduced"] and r.get("expected", 0) <= (15000 if case.get("m", 140) == 140 else 33750):
            return dict(reproduced=None, detail="the cross-check continuum no longer crosses the intended buffer boundary")
        return r
    if case.get("kind") == "ieee-kernel":
        return _replay_ieee(case)
    if case.get("kind") == "declared":
        return _replay_declared(case)
    sizes = case["sizes"]
    if case.get("chunk") is not None:
        # a scaled-capacity counterexample: first the same inputs at the real capacity; if the
        # defect needs a buffer growth, confirm it on the real build by crossing the real
        # 10000 / 15000 boundaries with a concrete continuum
        r = replay(dict(case, chunk=None))
        if r.get("reproduced"):
            return r
        for m_, boundary in ((140, 15000), (205, 33750)):      # 10000 / 15000, then 22500 / 33750
            r = _growth_positional(m_)
            if not r["reproduced"] and r.get("rows", 0) < r.get("expected", 0):
                r = dict(reproduced=True, detail=f"{r.get('rows')} candidates returned, {r.get('expected')} expected")
            if r["reproduced"]:
                return r
        return r
    if sum(sizes) > 127:
        return dict(reproduced=None, detail="too many units for int8 category replay")
    try:
        got, n_rows = _real_candidates(sizes, case["de"], case["pairs"])
    except Exception as ex:     # noqa: BLE001
        return dict(reproduced=True, detail="real kernel raised " + repr(ex)[:200])
    want = _oracle(sizes, case["de"], case["pairs"])
    bad = []
    if n_rows != len(got):
        bad.append("duplicate rows")
    for t, (inside, val) in want.items():
        if inside != (t in got):
            bad.append(f"tuple {t}: candidate={t in got} but under-cut={inside}")
        elif inside and abs(got[t] - float(val)) > 1e-5 * max(1, abs(float(val))):
            bad.append(f"tuple {t}: disorder {got[t]} != {float(val)}")
    for t in got:
        if t not in want:
            bad.append(f"unexpected tuple {t}")
    return dict(reproduced=bool(bad), detail="; ".join(bad[:4]))


def _growth_positional(m=140):
    """real kernel, 2 x m units, positional dissimilarity: candidate set and disorders against a
    float64 oracle; crosses the 10000 and 15000 buffer boundaries"""
    import numpy as np
    import pygamma_agreement as pa
    from pyannote.core import Segment
    c = pa.Continuum()
    U = [[], []]
    for a in range(2):
        for j in range(m):
            far = (j % 28 == 3 + a)
            s = 0.05 * j + 0.011 * a + (j % 7) * 0.0013 + (1000.0 if far else 0.0)
            e = s + (1.0 if far else 50.0 + ((j * 5 + a) % 11) * 0.21)
            c.add(common.ANN[a], Segment(s, e))
            U[a].append((s, e))
    de = 60.0
    d = pa.PositionalSporadicDissimilarity(delta_empty=de)
    # the continuum API needs labels? positional ignores them; use valid_alignments directly on arrays
    arrs = __import__("numba").typed.List()
    for a in range(2):
        arr = np.array([[s, e, e - s, 0] for s, e in sorted(U[a])], dtype=np.float32)
        arrs.append(arr)
    dis, al = d._get_all_valid_alignments(arrs, d.d_mat, d.delta_empty)
    got = {tuple(int(x) for x in al[k]): float(dis[k]) for k in range(len(al))}
    units = [sorted(U[0]), sorted(U[1])]
    bad = 0
    near = 0
    expected = 0
    for i in range(m + 1):
        for j in range(m + 1):
            if i == m and j == m:
                continue
            if i == m or j == m:
                v = de
            else:
                (s1, e1), (s2, e2) = units[0][i], units[1][j]
                s1, e1, s2, e2 = (float(np.float32(x)) for x in (s1, e1, s2, e2))
                r = (abs(s1 - s2) + abs(e1 - e2)) / ((e1 - s1) + (e2 - s2))
                v = r * r * de
            inside = v <= 2 * de
            if abs(v - 2 * de) < 1e-3 * de:
                near += 1
                continue
            expected += inside
            if inside != ((i, j) in got):
                bad += 1
            elif inside and abs(got[(i, j)] - v) > 1e-4 * max(1.0, v):
                bad += 1
    dup = len(got) != len(al)
    return dict(reproduced=bool(bad or dup), detail=f"rows={len(al)} expected>={expected} mismatches={bad} dup={dup} near-threshold-skipped={near}",
                rows=len(al), expected=expected)


def real_checks(tier):
    """concrete cross-check at the REAL buffer capacity: 2 x 140 units (19880 tuples, > 15000 candidates: two growths) on the real build
    against a float64 oracle - a defect that needs the real 10000 / 15000 boundaries is reported as a violation"""
    return [dict(kind="growth-real", name="candidates of a 2x140-unit continuum across the real 10000 / 15000 buffer boundaries == oracle"),
            dict(kind="growth-real", m=205, name="candidates of a 2x205-unit continuum across the real 22500 / 33750 buffer boundaries == oracle")]


def tv_cases(tier):
    return [dict(kind="kernel", sizes=[3, 2], de="3/2",
                                         pairs={"0,3": "1/2", "0,4": "4", "1,3": "7", "1,4": "0", "2,3": "3", "2,4": "3/4"}),
                                    dict(kind="kernel", sizes=[2, 1, 1], de="1",
                                         pairs={"0,2": "1/4", "1,2": "5", "0,3": "2", "1,3": "1", "2,3": "1/2"})] + _ieee_tv_cases()


def _ieee_tv_cases():
    """knife-edge inputs for the IEEE-mode model of the kernel: delta_empty values binary32 cannot represent, pair sums that sit on the
    cut exactly over the reals (and on either side of it after rounding), one ulp above and below"""
    import numpy as np
    f32 = np.float32
    out = []
    for de in (0.1, 0.2, 0.4, 0.05, 0.9, 1.0, 1.0 / 3.0, 0.7, 1e-3, 123.456):
        d = f32(de)
        e3 = f32(3.0 * float(d))
        for k, (a, b, c) in enumerate(((e3, e3, e3), (np.nextafter(e3, f32(np.inf)), e3, e3), (np.nextafter(e3, f32(0)), e3, e3),
                                       (f32(9.0 * float(d)), f32(0), f32(0)), (d, d, d), (f32(7.0 * float(d)), d, d))):
            out.append(dict(kind="ieee-kernel", sizes=[1, 1, 1], de=fp.hexf(d), pairs={"0,1": fp.hexf(a), "0,2": fp.hexf(b), "1,2": fp.hexf(c)}))
        e2 = f32(2.0 * float(d))
        out.append(dict(kind="ieee-kernel", sizes=[2, 1], de=fp.hexf(d), pairs={"0,2": fp.hexf(e2), "1,2": fp.hexf(np.nextafter(e2, f32(np.inf)))}))
    return out[:: 1]


def _sym_ieee_candidates(ns, case):
    """the symbolic build's kernel on constant IEEE-mode values (every decision folds to a constant: no solver involved)"""
    sizes = case["sizes"]
    offs = [sum(sizes[:a]) for a in range(len(sizes))]
    P = {tuple(sorted(int(x) for x in k.split(","))): fp.SymFP.of(real_np.float32(fp.unhex(v))) for k, v in case["pairs"].items()}
    ua = ns.dissimilarity.nb.typed.List()
    for a, sz in enumerate(sizes):
        arr = real_np.empty((sz, 4), dtype=object)
        for j in range(sz):
            arr[j] = [0, 1, 1, offs[a] + j]
        ua.append(arr)
    old = core.Ctx.cur
    core.Ctx.cur = core.Ctx()
    try:
        dis, al = ns.ds.AbstractDissimilarity._get_all_valid_alignments(
            ua, lambda u, v: P.get(tuple(sorted((int(u[3]), int(v[3])))), fp.SymFP.of(real_np.float32(0))), fp.SymFP.of(real_np.float32(fp.unhex(case["de"]))))
    finally:
        core.Ctx.cur = old
    return sorted([int(x) for x in al[k]] for k in range(len(al)))


def tv_real(cases):
    out = []
    for c in cases:
        if c["kind"] == "ieee-kernel":
            got, _ = _real_ieee_candidates(c["sizes"], c["de"], c["pairs"])
            out.append(sorted(list(t) for t in got))
            continue
        if c["kind"] == "growth":
            r = _growth_positional()
            out.append(dict(ok=not r["reproduced"], crossed=r["rows"] > 15000))
        else:
            got, _ = _real_candidates(c["sizes"], c["de"], c["pairs"])
            out.append(sorted([list(t), round(v, 6)] for t, v in got.items()))
    return out


def tv_sym(cases, ns):
    """symbolic build in concrete mode: same kernel source, plain numbers"""
    out = []
    for c in cases:
        if c["kind"] == "ieee-kernel":
            out.append(_sym_ieee_candidates(ns, c))
            continue
        if c["kind"] == "growth":
            out.append(dict(ok=True, crossed=True))     # real-build-only case (real capacity), expected outcome
            continue
        sizes = c["sizes"]
        offs = [sum(sizes[:a]) for a in range(len(sizes))]
        P = {tuple(sorted(int(x) for x in k.split(","))): Fraction(v) for k, v in c["pairs"].items()}
        ua = ns.dissimilarity.nb.typed.List()
        for a, s in enumerate(sizes):
            arr = real_np.empty((s, 4), dtype=object)
            for j in range(s):
                arr[j] = [0, 1, 1, offs[a] + j]
            ua.append(arr)
        dis, al = ns.ds.AbstractDissimilarity._get_all_valid_alignments(
            ua, lambda u, v: P.get(tuple(sorted((int(u[3]), int(v[3])))), Fraction(0)), Fraction(c["de"]))
        out.append(sorted([[int(x) for x in al[k]], round(float(dis[k]), 6)] for k in range(len(al))))
    return out
