"""C06 -- seeded results are reproducible under any thread schedule (job-granularity schedules)."""
import itertools
from fractions import Fraction

import z3

from symx import core, stubs
from symx.core import Obl, SymNum, SymBool, lift, mval
from . import common, c05

META = dict(
    level="model_checking",
    technique="bounded symbolic execution (z3) of compute_gamma, gamma_cat and gamma_k with the thread pool replaced by a deferred executor whose job order is a nondeterministic choice (all orders explored)",
    design_ref="section 4 / C06",
    claim="For every job-granularity schedule in the bound - at every submit() any one pending job may already run, and before the first result is "
          "collected all remaining jobs run in ANY order (all (n_samples+1)! orders, both batches; same for the gamma-cat / gamma-k pools): the i-th chance "
          "alignment is the alignment of the i-th sample drawn by the submitting thread, results are collected in submission order, no sample is drawn and no "
          "numpy RNG call is made while a job runs, hence observed disorder, the sequence of chance disorders, gamma, gamma-cat and gamma-k are the same "
          "terms over the same RNG draw indices in every schedule; constructing any built-in dissimilarity makes no numpy RNG call (its self-check uses "
          "the stdlib generator); repeating the computation in one process consumes a fresh, equally shaped block of draws.",
    trusted="z3; jobs are atomic with respect to shared state (C14 shows they do not write to it); the real samplers draw every sample in the submitting thread (C15/C16 run them single-threaded)",
    bounds=dict(quick="(+ both real samplers, one seeded generator, every order of a 3-name ground truth: same sample) n_samples in {1,2} (+ second batch of <= 2), all job orders - also with the root logger at INFO (--verbose) and with results collected through concurrent.futures.as_completed / wait (completion order = any permutation); gamma_cat / gamma_k with 2 chance alignments", thorough="n_samples = 3 (24 orders), second batch <= 3"),
    outside="pre-emptive interleavings inside a job (numba nogil code, CBC). The process hash seed cannot be seen by the symbolic model (its hash stand-in makes "
            "sets order-insensitive): it is covered only by a concrete cross-check on the real build, run with every check - the same seeded computations (both "
            "samplers, exact / fast / soft, gamma, gamma-cat, gamma-k) under PYTHONHASHSEED 0 / 4242 / 31337 with 1 / 16 / 3 workers must print identical numbers; "
            "that cross-check is a test, not part of the solver claim",
    stubs=["ThreadPoolExecutor = deferred executor with nondeterministic job order", "concurrent.futures.as_completed / wait = completion in any order chosen by the scheduler", "alignment methods / sampler / np.std = spies as in C05"],
    assumptions=["jobs atomic w.r.t. shared state"],
    cfg_budget_s=dict(quick=240, thorough=900),
    replay_alarm_s=600,
)


def configs(tier):
    out = []
    for n in ((1, 2) if tier == "quick" else (1, 2, 3)):
        out.append(dict(key=f"schedule,exact,n_samples={n},precision=None", mode="exact", n=n, prec=None, cost=30 * 6 ** n))
        out.append(dict(key=f"schedule,fast-2,n_samples={n},precision=numeric", mode="fast-2", n=n, prec="numeric", extra=2 if tier == "quick" else 3, cost=200 * 6 ** n))
    out.append(dict(key="schedule,soft,n_samples=2,precision=medium", mode="soft", n=2, prec="medium", extra=1, cost=2000))
    # the same with the root logger at INFO (what --verbose does): progress reporting must not change what is computed
    out.append(dict(key="schedule,exact,n_samples=2,precision=None,root-logger=INFO", mode="exact", n=2, prec=None, verbose=True, cost=30 * 6 ** 2))
    out.append(dict(key="schedule,fast-2,n_samples=1,precision=numeric,root-logger=INFO", mode="fast-2", n=1, prec="numeric", extra=2, verbose=True, cost=200 * 6))
    for meth in ("gamma_cat", "gamma_k"):
        out.append(dict(key=f"schedule,{meth},chance=2", mode=meth, n=2, cost=300))
    out.append(dict(key="dissimilarity-constructors-make-no-numpy-rng-call", mode="ctor", cost=10))
    out.append(dict(key="repetition,exact,n_samples=2", mode="repeat", n=2, prec=None, cost=50))
    # an unordered ground-truth collection iterates in an order that depends on the process hash seed: the samplers must hold it in one order
    out.append(dict(key="ground-truth-order-does-not-reach-the-draws", mode="gtorder", cost=10))
    return out


def schedule_factory(ctx, rec):
    def schedule(todo, at):
        if not todo:
            return []
        if at == "submit":
            k = ctx.choose(len(todo) + 1, tag="sched_submit")
            return [] if k == 0 else [todo[k - 1]]
        order = []
        rest = list(todo)
        while rest:
            k = ctx.choose(len(rest), tag="sched_order")
            order.append(rest.pop(k))
        return order
    return schedule


def harness(cfg, ns):
    mode = cfg["mode"]
    co, al, Segment = ns.co, ns.al, ns.Segment
    if mode in ("exact", "soft", "fast-2", "fast-inf"):
        return c05.harness(cfg, ns, schedule_factory=schedule_factory)

    def h_gk(ctx):
        rec = dict(alignments=[], measure=[], inits=[], drawn_in_job=[])
        rng = stubs.RNG(ctx, max_draws=4)
        ns.np.random = rng
        saved = co.ThreadPoolExecutor
        rec["executors"] = []
        co.ThreadPoolExecutor = stubs.DeferredExecutor.make(rng=rng, schedule=schedule_factory(ctx, rec), record=rec["executors"])
        saved_gk = al.Alignment.gamma_k_disorder
        vals = {}

        def spy(self, dissimilarity, category):
            key = (id(self), category)
            if key not in vals:
                vals[key] = ctx.fresh("gk!", lo=0)
                if self.tag != "best":
                    ctx.solver.add(vals[key].e > 0)
            return vals[key]
        al.Alignment.gamma_k_disorder = spy
        try:
            best = al.Alignment([], None, disorder=1)
            best.tag = "best"
            chance = []
            for i in range(cfg["n"]):
                A = al.Alignment([], None, disorder=1)
                A.tag = ("chance", i)
                chance.append(A)

            class D:
                pass
            res = co.GammaResults(best_alignment=best, chance_alignments=chance, dissimilarity=D())
            cat = None if mode == "gamma_cat" else "x"
            got = res.gamma_cat if mode == "gamma_cat" else res.gamma_k("x")
        finally:
            co.ThreadPoolExecutor = saved
            al.Alignment.gamma_k_disorder = saved_gk

        def rz(m):
            return dict(kind="gk", mode=mode)
        obs = vals.get((id(best), cat))
        obls = [Obl("observed-job-is-the-best-alignment", obs is not None, rz),
                Obl("no-rng-call-inside-a-job", rng.calls_in_job == 0 and not rng.log, rz)]
        if obs is None:
            return obls
        tot = 0
        ok = True
        for A in chance:
            v = vals.get((id(A), cat))
            if v is None:
                ok = False
                continue
            tot = tot + v
        # when the observed value is 0 the chance jobs need not be collected
        obls.append(Obl("value==1-observed/mean(chance)(1 when observed is 0) in every schedule",
                        SymBool(z3.If(lift(obs) == 0, lift(got) == 1,
                                      lift(got) == 1 - lift(obs) / (lift(tot) / len(chance)) if ok else z3.BoolVal(False))), rz))
        return obls

    def h_ctor(ctx):
        rng = stubs.RNG(ctx, max_draws=10000)
        ns.np.random = rng
        from sortedcontainers import SortedSet
        import numpy as real_np
        ds = ns.ds
        made = [ds.PositionalSporadicDissimilarity(), ds.AbsoluteCategoricalDissimilarity(2.0), ds.CombinedCategoricalDissimilarity(alpha=3, beta=2, delta_empty=0.5),
                ds.OrdinalCategoricalDissimilarity(["b", "a", "c"], [0, 1, 5]), ds.NumericalCategoricalDissimilarity(["1", "10", "2"]),
                ds.LevenshteinCategoricalDissimilarity(["ab", "b", "abc"]),
                ds.PrecomputedCategoricalDissimilarity(SortedSet(["a", "b"]), real_np.array([[0, 1], [1, 0]], dtype=object))]
        return [Obl("dissimilarity-constructors-make-no-numpy-rng-call", not rng.log and len(made) == 7, lambda m: dict(kind="ctor"))]

    def h_gtorder(ctx):
        co, sa, Segment = ns.co, ns.sa, ns.Segment
        c = co.Continuum()
        names = ["zoe", "abe", "mia", "bob"]
        for i, a in enumerate(names):
            c.add(a, Segment(10.0 * i, 10.0 * i + 4), "xy"[i % 2])
        rz = lambda m: dict(kind="gtorder")   # noqa: E731
        obls = []
        import itertools as _it
        import numpy as _rnp

        class SeededRNG:
            """numpy's real seeded generator behind the facade's object arrays (weights converted back to floats)"""

            def __init__(self, seed):
                self.r = _rnp.random.RandomState(seed)

            def normal(self, mu=0.0, sd=1.0, size=None):
                return float(self.r.normal(float(mu), float(sd)))

            def uniform(self, a=0.0, b=1.0, size=None):
                return float(self.r.uniform(float(a), float(b)))

            def random(self, size=None):
                return float(self.r.random_sample())

            def choice(self, seq, size=None, replace=True, p=None):
                seq = list(seq)
                k = self.r.choice(len(seq), p=None if p is None else _rnp.array([float(x) for x in p], dtype=float))
                return seq[int(k)]

            def seed(self, *a):
                pass

            PRIVATE = [0]

            def default_rng(self, seed=None):
                # a generator of its own: seeded from nowhere, it yields other numbers every time it is created
                SeededRNG.PRIVATE[0] += 1
                return SeededRNG(1000 + SeededRNG.PRIVATE[0]) if seed is None else SeededRNG(seed)

            RandomState = default_rng
        # a crowded continuum: the zones removed around the first pivots cover it before every annotator has one (fallback draw)
        crowded = co.Continuum()
        for i, a in enumerate(["zoe", "abe", "mia", "bob", "eve"]):
            crowded.add(a, Segment(0.2 * i, 9.0 + 0.2 * i), "xy"[i % 2])
        for pt in ("float_pivot", "int_pivot"):
            runs = []
            for rep in range(2):
                s_ = sa.ShuffleContinuumSampler(pivot_type=pt)
                ns.np.random = SeededRNG(11)
                s_.init_sampling(crowded, None)
                smp = [s_.sample_from_continuum for _ in range(3)]
                runs.append([[(a, float(u.segment.start), float(u.segment.end), u.annotation) for a, u in x] for x in smp])
            obls.append(Obl(f"same-seed-same-samples-on-a-crowded-continuum[{pt}]", runs[0] == runs[1], rz))
        for cls in (sa.ShuffleContinuumSampler, sa.StatisticalContinuumSampler):
            seen = []
            for order in _it.permutations(["zoe", "abe", "mia"]):
                s_ = cls()
                ns.np.std_calls = []
                ns.np.random = SeededRNG(5)      # the same concrete seeded generator for every order (no symbol in this configuration)
                s_.init_sampling(c, list(order))
                smp = s_.sample_from_continuum
                seen.append([(a, float(u.segment.start), float(u.segment.end), u.annotation) for a, u in smp])
            obls.append(Obl(f"same-seeded-sample-whatever-order-the-ground-truth-is-given-in[{cls.__name__}]", all(x == seen[0] for x in seen), rz))
        return obls

    def h_repeat(ctx):
        """two computations in one process: the second consumes the next, equally shaped, block of samples"""
        rec = dict(alignments=[], measure=[], inits=[], drawn_in_job=[])
        rng = stubs.RNG(ctx, max_draws=4)
        rec["rng"] = rng
        ns.np.random = rng
        ns.np.std_calls = []
        undo = c05.install_spies(ns, ctx, rec, schedule=schedule_factory(ctx, rec), rng=rng)
        try:
            c = co.Continuum()
            for a in ("a", "b"):
                c.add(a, Segment(0, 1), "x")
            c.tag = "input"
            sampler = c05.make_stub_sampler(ns, rec)

            class D:
                delta_empty = 1
            d = D()
            r1 = c.compute_gamma(d, n_samples=cfg["n"], sampler=sampler)
            r2 = c.compute_gamma(d, n_samples=cfg["n"], sampler=sampler)
        finally:
            undo()
        n = cfg["n"]
        rz = lambda m: dict(kind="repeat")   # noqa: E731
        t1 = [A.of.tag for A in r1.chance_alignments]
        t2 = [A.of.tag for A in r2.chance_alignments]
        return [Obl("first-run-uses-samples-0..n-1", t1 == [("sample", i) for i in range(n)], rz),
                Obl("second-run-uses-the-next-n-samples", t2 == [("sample", n + i) for i in range(n)], rz),
                Obl("no-sample-drawn-inside-a-job", not any(rec["drawn_in_job"]), rz),
                Obl("input-state-not-carried-over", c.best_window_size == float("inf") and len(rec["inits"]) == 2, rz)]
    return dict(gamma_cat=h_gk, gamma_k=h_gk, ctor=h_ctor, repeat=h_repeat, gtorder=h_gtorder)[mode]


def real_checks(tier):
    """concrete cross-checks the symbolic model cannot see: the process hash seed and the real worker count"""
    return [dict(kind="hashseed", name="seeded gamma identical under PYTHONHASHSEED=0 / 4242 / 31337 and with 1 / 16 / 3 workers (ground truth none or an unordered collection)")]


HASHSEED_SCRIPT = r"""
import sys, json, os, warnings
warnings.filterwarnings("ignore")
sys.path.insert(0, os.environ.get("VERIF_REPO", "/repo"))
import numpy as np
import pygamma_agreement as pa
import pygamma_agreement.continuum as co
from pyannote.core import Segment
workers = int(sys.argv[1])
co.os.cpu_count = lambda: workers
c = pa.Continuum()
names = ["zoe", "abe", "mia", "bob"]
for i, a in enumerate(names):
    for j in range(4):
        c.add(a, Segment(10 * j + i, 10 * j + 4 + i + (j % 2)), ["verb", "noun", "adj"][(i + j) % 3])
out = []
# ground-truth annotators: none, and given as unordered collections (their iteration order depends on the process hash seed)
for sampler, kw in [(smp, k) for smp in (None, pa.ShuffleContinuumSampler()) for k in (dict(), dict(fast=True), dict(soft=True))] + \
                   [(smp, dict(ground_truth_annotators=g)) for smp in (None, pa.ShuffleContinuumSampler())
                    for g in ({"zoe", "abe", "mia"}, frozenset(["bob", "zoe", "mia"]), {"abe": 1, "zoe": 2, "bob": 3}.keys())]:
    if True:
        np.random.seed(77)
        r = c.compute_gamma(pa.CombinedCategoricalDissimilarity(alpha=2), n_samples=4, sampler=sampler, **kw)
        out.append([round(float(r.observed_disorder), 6), [round(float(a.disorder), 6) for a in r.chance_alignments], round(float(r.gamma), 6),
                    round(float(r.gamma_cat), 6), [round(float(r.gamma_k(k)), 6) for k in c.categories]])
crowded = pa.Continuum()
for i, a in enumerate(["zoe", "abe", "mia", "bob", "eve"]):
    crowded.add(a, Segment(0.2 * i, 9.0 + 0.2 * i), ["verb", "noun"][i % 2])
np.random.seed(78)
r = crowded.compute_gamma(pa.CombinedCategoricalDissimilarity(), n_samples=4, sampler=pa.ShuffleContinuumSampler())
out.append([round(float(r.observed_disorder), 6), [round(float(a.disorder), 6) for a in r.chance_alignments], round(float(r.gamma), 6)])
print("RESULT" + json.dumps(out))
"""


def _hashseed_check():
    import json as _json
    import os
    import subprocess
    import sys
    procs = []
    for hs, workers in (("0", 1), ("4242", 16), ("31337", 3)):
        env = dict(os.environ, PYTHONHASHSEED=hs)
        procs.append((hs, workers, subprocess.Popen([sys.executable, "-W", "ignore", "-c", HASHSEED_SCRIPT, str(workers)], env=env,
                                                    stdout=subprocess.PIPE, stderr=subprocess.PIPE)))
    outs = []
    for hs, workers, p_ in procs:
        o, e = p_.communicate(timeout=600)
        line = [l for l in o.decode().splitlines() if l.startswith("RESULT")]
        if not line:
            return dict(reproduced=None, detail=f"cross-check process (hash seed {hs}) failed: " + e.decode()[-300:])
        outs.append((hs, workers, _json.loads(line[0][6:])))
    base = outs[0][2]
    bad = [f"PYTHONHASHSEED={hs}, {w} workers: {o} vs PYTHONHASHSEED={outs[0][0]}, {outs[0][1]} worker: {base}" for hs, w, o in outs[1:] if o != base]
    return dict(reproduced=bool(bad), detail="; ".join(bad)[:600])


def replay(case):
    """Schedules are realised on the real build by a deferred executor forcing the jobs in reversed order."""
    if case.get("kind") == "hashseed":
        return _hashseed_check()
    import pygamma_agreement as pa
    import pygamma_agreement.continuum as co
    from pyannote.core import Segment
    from unittest import mock
    import numpy as np
    if case.get("kind") == "gtorder":
        import itertools as _it
        import pygamma_agreement as pa
        from pyannote.core import Segment
        c = pa.Continuum()
        for i, a in enumerate(["zoe", "abe", "mia", "bob"]):
            c.add(a, Segment(10 * i, 10 * i + 4), "xy"[i % 2])
        bad = []
        import numpy as np
        crowded = pa.Continuum()
        for i, a in enumerate(["zoe", "abe", "mia", "bob", "eve"]):
            crowded.add(a, Segment(0.2 * i, 9.0 + 0.2 * i), "xy"[i % 2])
        for pt in ("float_pivot", "int_pivot"):
            runs = []
            for rep in range(2):
                s_ = pa.ShuffleContinuumSampler(pivot_type=pt)
                np.random.seed(11)
                s_.init_sampling(crowded, None)
                smp = [s_.sample_from_continuum for _ in range(3)]
                runs.append([[(a, float(u.segment.start), float(u.segment.end), u.annotation) for a, u in x] for x in smp])
            if runs[0] != runs[1]:
                bad.append(f"ShuffleContinuumSampler({pt}) on a crowded continuum: the same seed gives different samples")
        for cls in (pa.ShuffleContinuumSampler, pa.StatisticalContinuumSampler):
            seen = []
            for order in _it.permutations(["zoe", "abe", "mia"]):
                s_ = cls()
                np.random.seed(5)
                s_.init_sampling(c, list(order))
                smp = s_.sample_from_continuum
                seen.append([(a, float(u.segment.start), float(u.segment.end), u.annotation) for a, u in smp])
            if any(x != seen[0] for x in seen):
                bad.append(f"{cls.__name__}: the same seed gives different samples when the ground truth is given in another order (the order of a set depends on the process hash seed)")
        return dict(reproduced=bool(bad), detail="; ".join(bad))
    if case.get("kind") == "ctor":
        calls = []
        orig = {k: getattr(np.random, k) for k in ("uniform", "normal", "random", "randint", "choice")}

        def wrap(k):
            def f(*a, **kw):
                calls.append(k)
                return orig[k](*a, **kw)
            return f
        from sortedcontainers import SortedSet
        with mock.patch("numpy.random.uniform", wrap("uniform")), mock.patch("numpy.random.normal", wrap("normal")), \
                mock.patch("numpy.random.random", wrap("random")), mock.patch("numpy.random.randint", wrap("randint")), mock.patch("numpy.random.choice", wrap("choice")):
            pa.PositionalSporadicDissimilarity()
            pa.CombinedCategoricalDissimilarity(alpha=3, beta=2, delta_empty=0.5)
            pa.OrdinalCategoricalDissimilarity(["b", "a", "c"], [0, 1, 5])
            pa.LevenshteinCategoricalDissimilarity(["ab", "b", "abc"])
        np.random.seed(5)
        a = np.random.random()
        np.random.seed(5)
        pa.CombinedCategoricalDissimilarity()
        b = np.random.random()
        bad = []
        if calls:
            bad.append(f"numpy RNG called by a dissimilarity constructor: {calls[:3]}")
        if a != b:
            bad.append("constructing a dissimilarity advanced the numpy global RNG")
        return dict(reproduced=bool(bad), detail="; ".join(bad))
    # schedule-dependent behaviour, on real threads: a seeded gamma (a) with one worker, (b) with 16 workers and
    # jobs delayed so that later-submitted jobs finish first, (c) repeated; all must agree
    import time
    import threading
    c = pa.Continuum()
    for i, a in enumerate(("a", "b")):
        for j in range(3):
            c.add(a, Segment(10 * j + i, 10 * j + 4 + i), "xy"[j % 2])
    from concurrent.futures import ThreadPoolExecutor as RealTPE
    N = 5

    class ReversingExecutor(RealTPE):
        """real threads; every submitted job - whatever function it is - first sleeps the longer the earlier it was
        submitted, so that later-submitted jobs run (and finish) first"""

        def __init__(self, max_workers=None, **kw):
            super().__init__(max_workers=max_workers, **kw)
            self._n = 0

        def submit(self, fn, *args, **kwargs):
            idx = self._n
            self._n += 1

            def delayed(*a, **k):
                time.sleep(max(0, 12 - idx % 13) * 0.02)
                return fn(*a, **k)
            return super().submit(delayed, *args, **kwargs)
    outs = []
    d = pa.CombinedCategoricalDissimilarity()

    def run(workers, delay, soft=False, prec=None, verbose=False):
        np.random.seed(11)
        patches = [mock.patch.object(co.os, "cpu_count", lambda: workers)]
        undo_log = c05.verbose_logging() if verbose else (lambda: None)
        if delay:
            patches.append(mock.patch.object(co, "ThreadPoolExecutor", ReversingExecutor))
        for p_ in patches:
            p_.start()
        try:
            r = c.compute_gamma(d, n_samples=N, soft=soft, precision_level=prec)
            return ([round(float(a.disorder), 6) for a in r.chance_alignments], round(float(r.gamma), 6), round(float(r.gamma_cat), 6), round(float(r.gamma_k("x")), 6))
        finally:
            for p_ in patches:
                p_.stop()
            undo_log()
    try:
        # with a precision level a second batch is drawn; last: the root logger at INFO
        for soft, prec, verbose in ((False, None, False), (True, None, False), (False, 0.08, False), (True, 0.08, False), (False, None, True), (False, 0.08, True)):
            outs = [run(1, False, soft, prec, verbose), run(16, True, soft, prec, verbose), run(16, True, soft, prec, verbose)]
            if not (outs[0] == outs[1] == outs[2]):
                return dict(reproduced=True, detail=f"seeded results depend on the thread schedule (soft={soft}, precision_level={prec}, root logger at {'INFO' if verbose else 'its default level'}): "
                                                    f"{outs[0]} vs {outs[1]} vs {outs[2]}"[:600])
    except Exception as ex:     # noqa: BLE001
        return dict(reproduced=True, detail="seeded gamma computation raised " + repr(ex)[:300])
    if case.get("kind") == "gamma":
        return c05.replay(case)
    return dict(reproduced=False, detail="")
