"""C03 -- disorder values follow the definition (hand-built and library-returned alignments)."""
import itertools
from fractions import Fraction

from symx import core
from symx.core import Obl, SymNum, mval
from . import common, pipeline
from .common import ANN

META = dict(
    level="model_checking",
    technique="bounded symbolic execution (z3) of _build_arrays_alignment, _compute_alignment_disorders, UnitaryAlignment/Alignment/SoftAlignment disorder methods and the cached values of best/soft alignments",
    design_ref="section 4 / C03",
    claim="For every shape in the bound (number of annotators, number of unitary alignments, EVERY pattern of empty slots, listing-order permutations, "
          "with and without an attached continuum) and all real pair values >= 0 / delta_empty > 0: the unitary disorder is the mean over the C(n,2) "
          "annotator pairs (delta_empty when either side is empty), the alignment disorder is the sum divided by the mean number of units per annotator, "
          "Alignment.disorder (from carried values), compute_disorder and UnitaryAlignment.compute_disorder agree with it and with each other, none "
          "depends on the listing order; best and soft alignments returned by the library carry exactly those values.",
    trusted="z3; real arithmetic instead of float32; independent definition in harness/common.py",
    bounds=dict(quick="(+ returned best / soft alignments under the real combined dissimilarity with unlabelled and ''-labelled units, and under a declared-superset categorical component, (2,1)) n in {2,3,4} annotators, 1..2 unitary alignments, all empty-slot patterns, 3 listing orders per pattern (identity, reversed, rotated), "
                      "with / without continuum; hand-built alignments in which two annotators hold an identical unit (real positional dissimilarity, 3 annotators, 3 unitary alignments with empty slots); returned alignments: best and soft on (2,1),(2,2),(1,1,1)",
                thorough="+ n = 5 with 1..2 unitary alignments, n <= 4 with 3 unitary alignments, all n! listing orders for n <= 4"),
    outside="float32 accumulation error; alignments with more than 3 unitary alignments (the kernel loop is per unitary alignment, independent)",
    stubs=["numba.njit = identity", "np float arrays = object arrays of z3 reals", "d_mat = one free symbol >= 0 per unit pair"],
    assumptions=["pair dissimilarities symmetric and >= 0", "delta_empty > 0"],
    cfg_budget_s=dict(quick=200, thorough=900),
)


def configs(tier):
    out = []
    for n in (2, 3, 4):
        for k in (1, 2):
            for cont in (False, True):
                out.append(dict(key=f"hand-built,n={n},k={k},continuum={cont}", n=n, k=k, cont=cont, orders=3, cost=(2 ** n) ** k * 3))
    out.append(dict(key="cache-consistency,n=3", kind="cache", n=3, cost=20))
    # two annotators holding an IDENTICAL unit (same segment, same label), empty slots, real positional dissimilarity: the mean number of units
    # per annotator counts (annotator, unit) couples, with or without an attached continuum
    for cont in (False, True):
        out.append(dict(key=f"hand-built,twin-units-across-annotators,continuum={cont}", kind="twins", cont=cont, cost=30))
    for s in [(2, 1), (2, 2), (1, 1, 1)]:
        for mode in ("best", "soft"):
            out.append(dict(key=f"returned-{mode},sizes={s}", sizes=list(s), mode=mode, dissim="abstract", backend="cbc", cost=500))
    # the third kind of returned alignment: fast (window covering everything, so that one MIP is solved), incl. a unit-less annotator
    for s_ in [(2, 1), (2, 1, 0)]:
        out.append(dict(key=f"returned-fast,sizes={s_},window=1", sizes=list(s_), mode="fast1", dissim="abstract", backend="cbc", cost=500))
    # real dissimilarities on continua with unlabelled and ''-labelled units (the recompute path builds its own arrays)
    for lab in ("mixed", "empty-string", "none"):
        out.append(dict(key=f"returned-best,sizes=(2, 1),combined-fixedcoords,labels={lab}", sizes=[2, 1], mode="best", dissim="combined", labels=lab, coords="fixed",
                        backend="cbc", cost=300))
    out.append(dict(key="returned-soft,sizes=(2, 1),combined-fixedcoords,labels=mixed", sizes=[2, 1], mode="soft", dissim="combined", labels="mixed", coords="fixed",
                    backend="cbc", cost=300))
    out.append(dict(key="returned-best,sizes=(2, 1),combined-declared-superset-fixedcoords", sizes=[2, 1], mode="best", dissim="combined-declared", labels="declared-bd",
                    coords="fixed", backend="cbc", cost=300))
    if tier == "thorough":
        for n, k in [(5, 1), (5, 2), (2, 3), (3, 3), (4, 3)]:
            for cont in (False, True):
                out.append(dict(key=f"hand-built,n={n},k={k},continuum={cont}", n=n, k=k, cont=cont, orders=3 if (n == 5 or k == 3) else 0,
                                max_patterns=3000, cost=(2 ** n) ** k * 3))
        for n in (2, 3, 4):
            out.append(dict(key=f"hand-built,n={n},k=2,all-orders", n=n, k=2, cont=False, orders=0, cost=(2 ** n) ** 2 * 24))
        for s in [(3, 2), (2, 1, 1), (3, 1)]:
            out.append(dict(key=f"returned-best,sizes={s}", sizes=list(s), mode="best", dissim="abstract", backend="cbc", cost=5000))
        out.append(dict(key="returned-soft,sizes=(3, 1)", sizes=[3, 1], mode="soft", dissim="abstract", backend="cbc", cost=5000))
    return out


def cache_harness(cfg, ns):
    """multi-step use of the cached values: recomputing with another dissimilarity, replacing an n-tuple"""
    al, co, Segment = ns.al, ns.co, ns.Segment
    n = cfg["n"]

    def h(ctx):
        from sortedcontainers import SortedSet
        de = ctx.fresh("de")
        de2 = ctx.fresh("de2")
        ctx.solver.add(de.e > 0, de2.e > 0)
        cats = SortedSet(common.uid_label(i) for i in range(2 * n))
        D1, t1 = common.make_abstract_dissim(ns, ctx, de, cats)
        D2, t2 = common.make_abstract_dissim(ns, ctx, de2, cats)
        t2.val = lambda i, j, _v=t1.val: _v(i, j) * 3 + (0 if int(i) == int(j) else 1)       # a different dissimilarity
        D2.d_mat = lambda u1, u2: t2.val(int(u1[3]), int(u2[3]))
        units = {(u, a): co.Unit(Segment(10 * u + a, 10 * u + a + 5), common.uid_label(u * n + a)) for u in range(2) for a in range(n)}
        names = common.ANN[:n]
        uas = [al.UnitaryAlignment([(names[a], units[(u, a)]) for a in range(n)]) for u in range(2)]
        A = al.Alignment(uas)
        rz = lambda m: dict(kind="cache", n=n, de=common.frs(mval(m, de)), de2=common.frs(mval(m, de2)), pairs={f"{i},{j}": common.frs(mval(m, v)) for (i, j), v in t1.D.items()})   # noqa: E731
        ctx.notes["realize"] = rz
        c2n = n * (n - 1) // 2

        def ucost(u, val):
            tot = 0
            for a in range(n):
                for b in range(a):
                    tot = tot + val(u * n + a, u * n + b)
            return tot / c2n
        obls = []
        try:
            uas[0].disorder
            obls.append(Obl("unitary disorder before any computation raises ValueError", False, rz))
        except ValueError:
            obls.append(Obl("unitary disorder before any computation raises ValueError", True, rz))
        v1 = A.compute_disorder(D1)
        w1 = (ucost(0, t1.val) + ucost(1, t1.val)) / 2
        obls.append(Obl("first computation == definition", core.approx(v1, w1, w1), rz))
        v2 = A.compute_disorder(D2)
        w2 = (ucost(0, t2.val) + ucost(1, t2.val)) / 2
        obls.append(Obl("recomputation with another dissimilarity == its definition", core.approx(v2, w2, w2), rz))
        obls.append(Obl("alignment.disorder follows the last computation", core.approx(A.disorder, w2, w2), rz))
        for u in range(2):
            obls.append(Obl("carried unitary disorders follow the last computation", core.eq(uas[u].disorder, ucost(u, t2.val)), rz))
        # replacing the n-tuple of a unitary alignment invalidates its carried disorder
        uas[1].n_tuple = [(names[a], units[(0, a)]) for a in range(n)]
        try:
            uas[1].disorder
            obls.append(Obl("replacing an n-tuple invalidates the carried disorder", False, rz))
        except ValueError:
            obls.append(Obl("replacing an n-tuple invalidates the carried disorder", True, rz))
        v3 = uas[1].compute_disorder(D1)
        obls.append(Obl("unitary recomputation after replacement == definition/nb-avg", core.approx(v3, ucost(0, t1.val), ucost(0, t1.val)), rz))
        return obls
    return h


TWINS = dict(units=[[(0, 10, "x"), (0, 10, "x"), (1, 11, "x")], [(20, 25, "y"), None, (21, 26, "x")], [None, (40, 44, "y"), None]])


def _twins_definition(de):
    """disorder by the definition, as a multiple of delta_empty (exact rationals)"""
    tot = 0
    n = 3
    for tup in TWINS["units"]:
        u = 0
        for a in range(n):
            for b in range(a):
                if tup[a] is None or tup[b] is None:
                    u = u + de
                else:
                    (s1, e1, _), (s2, e2, _) = tup[a], tup[b]
                    r = Fraction(abs(s1 - s2) + abs(e1 - e2), (e1 - s1) + (e2 - s2))
                    u = u + r * r * de
        tot = tot + u / 3
    nreal = sum(1 for tup in TWINS["units"] for x in tup if x is not None)
    return tot / Fraction(nreal, n)


def twins_harness(cfg, ns):
    al, co, Segment = ns.al, ns.co, ns.Segment

    def h(ctx):
        de = ctx.fresh("de")
        ctx.solver.add(de.e > 0)
        D = ns.ds.PositionalSporadicDissimilarity(delta_empty=de)
        names = ANN[:3]
        rz = lambda m: dict(kind="twins", cont=cfg["cont"], de=common.frs(mval(m, de)))   # noqa: E731
        ctx.notes["realize"] = rz
        ctx.notes["inputs"] = [de]
        ctx.notes["scales"] = [de]
        want = _twins_definition(de)
        obls = []
        for order in ((0, 1, 2), (2, 1, 0), (1, 2, 0)):
            uas = [al.UnitaryAlignment([(names[a], None if tup[a] is None else co.Unit(Segment(tup[a][0], tup[a][1]), tup[a][2])) for a in order]) for tup in TWINS["units"]]
            cont = None
            if cfg["cont"]:
                cont = co.Continuum()
                for ua in uas:
                    for a, u in ua.n_tuple:
                        if u is not None:
                            cont.add(a, u.segment, u.annotation)
            for cls in (al.Alignment, al.SoftAlignment):
                A = cls(uas, cont)
                obls.append(Obl(f"twins:{cls.__name__}.compute_disorder==definition[order={order}]", core.approx(A.compute_disorder(D), want, want), rz))
                B = cls(uas, cont)
                obls.append(Obl(f"twins:{cls.__name__}.disorder(summed from the unitary ones)==definition[order={order}]", core.approx(B.disorder, want, want), rz))
        return obls
    return h


def _replay_twins(case):
    import pygamma_agreement as pa
    from pyannote.core import Segment
    from pygamma_agreement.alignment import UnitaryAlignment, Alignment, SoftAlignment
    bad = []
    for de in sorted({float(Fraction(case["de"])), 1.0, 0.5}):
        D = pa.PositionalSporadicDissimilarity(delta_empty=de)
        want = float(_twins_definition(Fraction(de)))
        names = ANN[:3]
        for order in ((0, 1, 2), (2, 1, 0)):
            uas = [UnitaryAlignment([(names[a], None if tup[a] is None else pa.Unit(Segment(tup[a][0], tup[a][1]), tup[a][2])) for a in order]) for tup in TWINS["units"]]
            cont = None
            if case.get("cont"):
                cont = pa.Continuum()
                for ua in uas:
                    for a, u in ua.n_tuple:
                        if u is not None:
                            cont.add(a, u.segment, u.annotation)
            for cls in (Alignment, SoftAlignment):
                got = float(cls(uas, cont).compute_disorder(D))
                B = cls(uas, cont)
                lazy = float(B.disorder)
                if abs(got - want) > 1e-4 * max(1e-3, want) or abs(lazy - want) > 1e-4 * max(1e-3, want):
                    bad.append(f"{cls.__name__} over twin units (delta_empty={de}, continuum attached={bool(case.get('cont'))}): compute_disorder {got}, .disorder {lazy}, definition {want}")
    return dict(reproduced=bool(bad), detail="; ".join(bad[:3]))


def harness(cfg, ns):
    if cfg.get("kind") == "cache":
        return cache_harness(cfg, ns)
    if cfg.get("kind") == "twins":
        return twins_harness(cfg, ns)
    if "sizes" in cfg:
        return returned_harness(cfg, ns)
    n, k = cfg["n"], cfg["k"]
    al, co, Segment = ns.al, ns.co, ns.Segment
    names = ANN[:n]
    slot_patterns = [p for p in itertools.product((0, 1), repeat=n) if any(p)]     # 1 = real unit, 0 = empty
    patterns = list(itertools.product(slot_patterns, repeat=k))
    if cfg.get("max_patterns") and len(patterns) > cfg["max_patterns"]:
        import random
        random.Random(7).shuffle(patterns)
        patterns = patterns[:cfg["max_patterns"]]
    ident = tuple(range(n))
    if cfg.get("orders"):
        orders = [ident, tuple(reversed(ident)), ident[1:] + ident[:1]]
    else:
        orders = list(itertools.permutations(ident))

    def h(ctx):
        from sortedcontainers import SortedSet
        de = ctx.fresh("de")
        ctx.solver.add(de.e > 0)
        # unit (u, a) has uid u*n + a
        cats = SortedSet(common.uid_label(i) for i in range(n * k))
        D, table = common.make_abstract_dissim(ns, ctx, de, cats)
        units = {(u, a): co.Unit(Segment(10 * u + a, 10 * u + a + 5), common.uid_label(u * n + a)) for u in range(k) for a in range(n)}
        c2n = n * (n - 1) // 2

        def pair(x, y):          # x = (annotator, unit-index-in-annotator) -> here we key by uid directly
            return table.val(x, y)

        def realize(m):
            return dict(kind="hand-built", n=n, k=k, de=common.frs(mval(m, de)),
                        pairs={f"{i},{j}": common.frs(mval(m, v)) for (i, j), v in table.D.items()})
        ctx.notes["realize"] = realize
        obls = []
        for pat in patterns:
            # definitional values
            u_costs = []
            for u in range(k):
                tot = 0
                for a in range(n):
                    for b in range(a):
                        if pat[u][a] and pat[u][b]:
                            tot = tot + table.val(u * n + a, u * n + b)
                        else:
                            tot = tot + de
                u_costs.append(tot / c2n)
            nreal = sum(sum(p) for p in pat)
            values = []
            for oi, order in enumerate(orders):
                uas = []
                for u in range(k):
                    # second unitary alignment is listed in the permuted order, first in identity order
                    od = order if u % 2 == 1 or k == 1 else ident
                    uas.append(al.UnitaryAlignment([(names[a], units[(u, a)] if pat[u][a] else None) for a in od]))
                cont = None
                if cfg["cont"]:
                    cont = co.Continuum()
                    for a in range(n):
                        cont.add_annotator(names[a])
                    for u in range(k):
                        for a in range(n):
                            if pat[u][a]:
                                cont.add(names[a], units[(u, a)].segment, units[(u, a)].annotation)
                A = al.Alignment(uas, cont)
                avg = Fraction(nreal, n)
                want = sum(u_costs[1:], u_costs[0]) / avg
                got = A.compute_disorder(D)
                tag = f"n={n},k={k}"
                obls.append(Obl(f"alignment.compute_disorder==definition[{tag}]", core.approx(got, want, want), realize))
                for u in range(k):
                    obls.append(Obl(f"carried-unitary-disorder==definition[{tag}]", core.eq(uas[u].disorder, u_costs[u]), realize))
                # disorder from carried values (fresh alignment object over the same unitary alignments)
                B = al.Alignment(uas, cont)
                obls.append(Obl(f"alignment.disorder(from carried)==definition[{tag}]", core.approx(B.disorder, want, want), realize))
                S = al.SoftAlignment(uas, cont)
                obls.append(Obl(f"softalignment.compute_disorder==definition[{tag}]", core.approx(S.compute_disorder(D), want, want), realize))
                # unitary alignment alone
                ua0 = al.UnitaryAlignment(list(uas[0].n_tuple))
                obls.append(Obl(f"unitary.compute_disorder==definition/nb-avg[{tag}]",
                                core.approx(ua0.compute_disorder(D), u_costs[0] / Fraction(sum(pat[0]), n), u_costs[0] * n), realize))
                values.append(got)
            for v in values[1:]:
                obls.append(Obl(f"independent-of-listing-order[n={n},k={k}]", core.approx(v, values[0], values[0]), realize))
        return obls
    return h


def returned_harness(cfg, ns):
    sizes = tuple(cfg["sizes"])

    def h(ctx):
        E = pipeline.setup(ns, ctx, cfg)
        rz = ctx.notes["realize"]
        A = pipeline.run_alignment(ns, E, cfg["mode"])
        sobls, tuples = pipeline.structure_obls(E, A, cfg["mode"] == "soft", rz)
        obls = [Obl("returned-alignment-well-formed", tuples is not None, rz)]
        if tuples is None:
            return obls
        de, pair = E["de"], E["pair"]
        cached = A.disorder
        carried = [ua.disorder for ua in A.unitary_alignments]
        want_u = [common.tuple_cost(t, sizes, de, pair) for t in tuples]
        want = common.alignment_cost(tuples, sizes, de, pair)
        obls.append(Obl("cached-disorder==definition", core.approx(cached, want, want), rz))
        for cu, wu in zip(carried, want_u):
            obls.append(Obl("carried-unitary-disorder==definition", core.eq(cu, wu), rz))
        tot = 0
        for cu in carried:
            tot = tot + cu
        obls.append(Obl("cached==sum(carried)/mean-units-per-annotator", core.approx(cached, tot / Fraction(sum(sizes), len(sizes)), cached), rz))
        rec = A.compute_disorder(E["D"])
        obls.append(Obl("recomputed==cached", core.approx(rec, cached, cached), rz))
        for ua, wu in zip(A.unitary_alignments, want_u):
            obls.append(Obl("recomputed-unitary==definition", core.eq(ua.disorder, wu), rz))
        return obls
    return h


# ---------------------------------------------------------------------------------------------
def replay(case):
    if case.get("kind") == "pipeline":
        return pipeline.replay_pipeline(case)
    if case.get("kind") == "cache":
        return _replay_cache(case)
    if case.get("kind") == "twins":
        return _replay_twins(case)
    import itertools as it
    import numpy as np
    import pygamma_agreement as pa
    from pygamma_agreement.alignment import UnitaryAlignment, Alignment, SoftAlignment
    from pyannote.core import Segment
    from sortedcontainers import SortedSet
    n, k = case["n"], case["k"]
    de = float(Fraction(case["de"]))
    nunits = n * k
    cats = SortedSet(common.uid_label(i) for i in range(nunits))
    M = np.zeros((nunits, nunits), dtype=np.float32)
    P = {}
    for key, v in case["pairs"].items():
        i, j = (int(x) for x in key.split(","))
        M[i, j] = M[j, i] = float(Fraction(v)) / de
        P[(i, j)] = P[(j, i)] = float(Fraction(v))
    D = pa.PrecomputedCategoricalDissimilarity(cats, M, delta_empty=de)
    names = ANN[:n]
    units = {(u, a): pa.Unit(Segment(10 * u + a, 10 * u + a + 5), common.uid_label(u * n + a)) for u in range(k) for a in range(n)}
    c2n = n * (n - 1) // 2
    bad = []
    slot_patterns = [p for p in it.product((0, 1), repeat=n) if any(p)]
    ident = tuple(range(n))
    for pat in it.islice(it.product(slot_patterns, repeat=k), 400):
        u_costs = []
        for u in range(k):
            tot = 0.0
            for a in range(n):
                for b in range(a):
                    tot += P.get((u * n + a, u * n + b), 0.0) if (pat[u][a] and pat[u][b]) else de
            u_costs.append(tot / c2n)
        want = sum(u_costs) / (sum(sum(p) for p in pat) / n)
        vals = []
        for order in (ident, tuple(reversed(ident)), ident[1:] + ident[:1]):
            uas = [UnitaryAlignment([(names[a], units[(u, a)] if pat[u][a] else None) for a in (order if (u % 2 == 1 or k == 1) else ident)])
                   for u in range(k)]
            try:
                got = float(Alignment(uas).compute_disorder(D))
                got_s = float(SoftAlignment(uas).compute_disorder(D))
                got_c = float(Alignment(uas).disorder)
            except Exception as ex:     # noqa: BLE001
                return dict(reproduced=True, detail=f"pattern {pat} order {order}: raised {ex!r}"[:300])
            vals.append(got)
            for nm, g in (("compute_disorder", got), ("soft.compute_disorder", got_s), ("disorder(from carried)", got_c)):
                if abs(g - want) > 1e-4 * max(abs(want), 1e-3):
                    bad.append(f"pattern {pat} order {order}: {nm}={g} definition={want}")
        if max(vals) - min(vals) > 1e-5 * max(1.0, max(vals)):
            bad.append(f"pattern {pat}: listing order changes the value {vals}")
        if len(bad) > 3:
            break
    return dict(reproduced=bool(bad), detail="; ".join(bad[:3]))


# translator validation (shared): the repository's own test inputs through both builds
tv_cases, tv_real, tv_sym, tv_compare_hook = pipeline.tv_cases, pipeline.tv_real, pipeline.tv_sym, pipeline.tv_compare_hook


def _replay_cache(case):
    import numpy as np
    import pygamma_agreement as pa
    from pygamma_agreement.alignment import UnitaryAlignment, Alignment
    from pyannote.core import Segment
    from sortedcontainers import SortedSet
    n = case["n"]
    de, de2 = float(Fraction(case["de"])), float(Fraction(case["de2"]))
    nunits = 2 * n
    cats = SortedSet(common.uid_label(i) for i in range(nunits))
    M = np.zeros((nunits, nunits), dtype=np.float32)
    for key, v in case["pairs"].items():
        i, j = (int(x) for x in key.split(","))
        M[i, j] = M[j, i] = float(Fraction(v))
    M2 = M * 3 + (1 - np.eye(nunits, dtype=np.float32))
    D1 = pa.PrecomputedCategoricalDissimilarity(cats, M / de, delta_empty=de)
    D2 = pa.PrecomputedCategoricalDissimilarity(cats, M2 / de2, delta_empty=de2)
    names = common.ANN[:n]
    units = {(u, a): pa.Unit(Segment(10 * u + a, 10 * u + a + 5), common.uid_label(u * n + a)) for u in range(2) for a in range(n)}
    uas = [UnitaryAlignment([(names[a], units[(u, a)]) for a in range(n)]) for u in range(2)]
    A = Alignment(uas)
    c2n = n * (n - 1) // 2

    def ucost(u, MM):
        return sum(float(MM[u * n + a, u * n + b]) for a in range(n) for b in range(a)) / c2n
    bad = []

    def close(a, b):
        return abs(a - b) <= 1e-4 * max(1e-3, abs(b))
    v1 = float(A.compute_disorder(D1))
    if not close(v1, (ucost(0, M) + ucost(1, M)) / 2):
        bad.append(f"first computation {v1}")
    v2 = float(A.compute_disorder(D2))
    w2 = (ucost(0, M2) + ucost(1, M2)) / 2
    if not close(v2, w2) or not close(float(A.disorder), w2):
        bad.append(f"after recomputation: returned {v2}, alignment.disorder {A.disorder}, definition {w2}")
    for u in range(2):
        if not close(float(uas[u].disorder), ucost(u, M2)):
            bad.append(f"carried unitary disorder {uas[u].disorder} != {ucost(u, M2)}")
    uas[1].n_tuple = [(names[a], units[(0, a)]) for a in range(n)]
    try:
        uas[1].disorder
        bad.append("carried disorder survived the replacement of the n-tuple")
    except ValueError:
        pass
    return dict(reproduced=bool(bad), detail="; ".join(bad[:3]))
