"""C14 -- computations never modify their inputs; derived continua are independent of their source."""
from fractions import Fraction

import z3

from symx import core, stubs, cpstub
from symx.core import Obl, SymNum, SymBool, lift, lb, mval
from . import common, pipeline, c05, c10
from .common import ANN

META = dict(
    level="model_checking",
    technique="bounded symbolic execution (z3) of every public computation entry point with term-level snapshots of the continuum and dissimilarity taken before and after, followed by a mutation of each returned continuum / of the source (symbolic coordinates, nondeterministic RNG stub)",
    design_ref="section 4 / C14",
    claim="For every entry point in the list (best / soft / fast alignment, compute_gamma in exact, soft and fast mode, Alignment.compute_disorder, "
          "gamma_k_disorder, both samplers' init_sampling and sample_from_continuum, CorpusShufflingTool construction incl. extra categories, "
          "corpus_from_reference, corpus_shuffle) and, within the bound, all unit coordinates (which decide which branches run) and all RNG outcomes: "
          "annotators, units, categories and bounds of the input continuum and delta_empty / alpha / beta / categories / matrix of the dissimilarity "
          "are the very same terms afterwards (only best_window_size may change, and only in fast-mode gamma); and for copy, merge, sampler and "
          "shuffling-tool outputs: adding a unit with a new label, removing a unit or adding an annotator on one side leaves the other side's snapshot unchanged.",
    trusted="z3; snapshot compares annotators, units (start, end, label), categories, bounds, window size and the dissimilarity's parameters - state outside these (none exists in the classes today) would escape it",
    bounds=dict(quick="(+ both samplers on a reference without any label) continua (2,1) / (1,1) with symbolic coordinates; samplers: <= 1 unit per annotator per draw; CST: 2-unit reference, 1-2 generated annotators",
                thorough="+ (2,2) continua, 3 annotators"),
    outside="mutation through private attributes other than the ones a user can reach with add / remove / add_annotator / merge(in_place)",
    stubs=["cvxpy = contract stub", "np.random = nondeterministic RNG stub", "ThreadPoolExecutor = deferred executor", "alignment methods replaced by spies inside compute_gamma (their own non-interference is checked directly)"],
    assumptions=["segments longer than SEGMENT_PRECISION", "coordinates and gap / duration draws within [-64, 64]"],
    cfg_budget_s=dict(quick=240, thorough=900),
)


def configs(tier):
    out = []
    for mode in ("best", "soft"):
        for s in [(2, 1)] + ([(2, 2)] if tier == "thorough" else []):
            out.append(dict(key=f"{mode}-alignment,sizes={s}", kind="align", mode=mode, sizes=list(s), cost=100))
    out.append(dict(key="best-alignment,combined-dissimilarity,sizes=(1, 1)", kind="align", mode="best", sizes=[1, 1], dissim="combined", cost=100))
    out.append(dict(key="fast-alignment,sizes=(2, 1),window=1", kind="fast", sizes=[2, 1], w=1, cost=500, split=16))
    out.append(dict(key="disorders,sizes=(2, 1)", kind="disorders", sizes=[2, 1], cost=50))
    for mode in ("exact", "soft", "fast"):
        out.append(dict(key=f"compute_gamma,{mode},statistical-sampler", kind="gamma", mode=mode, sampler="stat", cost=300))
    out.append(dict(key="compute_gamma,exact,shuffle-sampler", kind="gamma", mode="exact", sampler="shuffle", cost=300))
    out.append(dict(key="sampler-statistical,independence", kind="sampler", sampler="stat", cost=1000, split=32))
    out.append(dict(key="sampler-shuffle,independence", kind="sampler", sampler="shuffle", cost=1000, split=32))
    # a reference without any label: whether the sampler accepts or refuses it, the reference is left as it was
    for smp in ("stat", "shuffle"):
        out.append(dict(key=f"sampler-{smp},unlabelled-reference", kind="sampler", sampler=smp, unlabelled=True, cost=300, split=8))
    for flag in ("none", "cat_shuffle", "false_neg"):
        out.append(dict(key=f"cst,{flag}", kind="cst", flag=flag, cost=100))
    out.append(dict(key="cst,none,include_ref", kind="cst", flag="none", include_ref=True, cost=100))
    out.append(dict(key="copy-merge-getitem,independence", kind="derive", cost=50))
    return out


def same(a, b):
    if isinstance(a, SymNum) and isinstance(b, SymNum):
        return a.e.eq(b.e) or z3.is_true(z3.simplify(a.e == b.e))
    if isinstance(a, SymNum) or isinstance(b, SymNum):
        return z3.is_true(z3.simplify(lift(a) == lift(b)))
    return a == b


def snap(c):
    return dict(ann=list(c._annotations.keys()),
                units={a: [(u.segment.start, u.segment.end, u.annotation) for u in c._annotations[a]] for a in c._annotations.keys()},
                cats=list(c._categories), bounds=(c.bound_inf, c.bound_sup), window=c.best_window_size)


def snap_eq(s1, s2, window=True):
    if s1["ann"] != s2["ann"] or s1["cats"] != s2["cats"]:
        return False
    for a in s1["ann"]:
        if len(s1["units"][a]) != len(s2["units"][a]):
            return False
        for x, y in zip(s1["units"][a], s2["units"][a]):
            if not (same(x[0], y[0]) and same(x[1], y[1]) and x[2] == y[2]):
                return False
    if not (same(s1["bounds"][0], s2["bounds"][0]) and same(s1["bounds"][1], s2["bounds"][1])):
        return False
    return (not window) or s1["window"] == s2["window"]


def dsnap(D):
    out = {}
    for k in ("delta_empty", "alpha", "beta"):
        if hasattr(D, k):
            out[k] = getattr(D, k)
    out["cats"] = None if getattr(D, "categories", None) is None else list(D.categories)
    for comp in ("positional_dissim", "categorical_dissim"):
        if hasattr(D, comp):
            out[comp] = dsnap(getattr(D, comp))
    if hasattr(D, "_matrix"):
        out["matrix"] = [x for x in getattr(D, "_matrix").flat]
    return out


def dsnap_eq(a, b):
    if a.keys() != b.keys():
        return False
    for k in a:
        if isinstance(a[k], dict):
            if not dsnap_eq(a[k], b[k]):
                return False
        elif isinstance(a[k], list) and k == "matrix":
            if len(a[k]) != len(b[k]) or not all(same(x, y) for x, y in zip(a[k], b[k])):
                return False
        elif not same(a[k], b[k]) if not isinstance(a[k], (list, type(None))) else a[k] != b[k]:
            return False
    return True


def mutate_and_compare(ns, ctx, victim, other, tag, rz):
    """mutations a user can perform on `victim`; `other` must keep its snapshot"""
    Segment = ns.Segment
    before = snap(other)
    MUT[0] += 1
    s_, e_ = core.const(1000 + 3 * MUT[0]), core.const(1002 + 3 * MUT[0])       # far from every (bounded) unit: no ordering forks
    anns = list(victim._annotations.keys()) or ["fresh_annotator"]
    for k_, ann in enumerate(anns):         # every annotator, including those without any unit
        victim.add(ann, Segment(s_ + 100 * k_, e_ + 100 * k_), "NEW_LABEL")
    victim.add_annotator("brand_new_annotator")
    first = next(((a, u) for a, u in victim if u.annotation != "NEW_LABEL"), None)
    if first is not None:
        victim.remove(*first)
    return [Obl(f"{tag}: mutating one side leaves the other unchanged", snap_eq(before, snap(other)), rz)]


MUT = [0]
BOUND = 64


def harness(cfg, ns):
    co, al, sa, cst, ds, Segment = ns.co, ns.al, ns.sa, ns.cst, ns.ds, ns.Segment
    kind = cfg["kind"]

    def base(ctx, sizes=(2, 1), labels=None):
        nu = sum(sizes)
        labels = labels or [("x", "y")[k % 2] for k in range(nu)]
        c, info = common.build_continuum(ns, ctx, sizes, coords="sym", labels=labels, min_dur=1)
        ctx.notes["inputs"] = [v[k] for v in info.values() for k in ("start", "end")]
        for x in ctx.notes["inputs"]:
            ctx.solver.add(x.e >= -BOUND, x.e <= BOUND)          # bounded coordinates (stated)
        MUT[0] = 0

        def rz(m):
            return dict(kind=kind, cfg={k: v for k, v in cfg.items() if k not in ("key", "cost", "split")},
                        units=[[ANN[a], common.frs(mval(m, v["start"])), common.frs(mval(m, v["end"])), v["label"]] for (a, j), v in sorted(info.items())],
                        annotators=[ANN[a] for a in range(len(sizes))])
        ctx.notes["realize"] = rz
        return c, info, rz

    def h_align(ctx):
        E = pipeline.setup(ns, ctx, dict(sizes=cfg["sizes"], dissim=cfg.get("dissim", "abstract"), backend="cbc", labels="xy"))
        rz0 = ctx.notes["realize"]

        def rz(m):
            cse = rz0(m)
            cse["cfg"] = dict(kind="align", mode=cfg["mode"])
            return cse
        ctx.notes["realize"] = rz
        c, D = E["c"], E["D"]
        s0, d0 = snap(c), dsnap(D)
        A = pipeline.run_alignment(ns, E, cfg["mode"])
        return [Obl(f"{cfg['mode']} alignment: continuum unchanged", snap_eq(s0, snap(c)), rz),
                Obl(f"{cfg['mode']} alignment: dissimilarity unchanged", dsnap_eq(d0, dsnap(D)), rz)]

    def h_fast(ctx):
        sizes = tuple(cfg["sizes"])
        de = ctx.fresh("de")
        ctx.solver.add(de.e > 0)
        c, info = common.build_continuum(ns, ctx, sizes, coords="sym", labels="unique", min_dur=1)
        D, table = common.make_abstract_dissim(ns, ctx, de, c.categories)
        ctx.notes["inputs"] = [de] + [v[k] for v in info.values() for k in ("start", "end")]

        def rz(m):
            return dict(kind="fast", sizes=list(sizes), w=cfg["w"], de=common.frs(mval(m, de)),
                        units=[[ANN[a], common.frs(mval(m, v["start"])), common.frs(mval(m, v["end"])), v["label"]] for (a, j), v in sorted(info.items())],
                        annotators=[ANN[a] for a in range(len(sizes))], pairs={f"{i},{j}": common.frs(mval(m, v)) for (i, j), v in table.D.items()})
        ctx.notes["realize"] = rz
        orig = co.Continuum.get_best_alignment
        co.Continuum.get_best_alignment = c10.contract_best_alignment(ns, ctx, table)
        s0 = snap(c)
        try:
            fast = c.get_fast_alignment(D, cfg["w"])
        finally:
            co.Continuum.get_best_alignment = orig
        return [Obl("fast alignment: continuum unchanged", snap_eq(s0, snap(c)), rz)]

    def h_disorders(ctx):
        c, info, rz = base(ctx, tuple(cfg["sizes"]))
        de = ctx.fresh("de")
        alpha, beta = ctx.fresh("alpha", lo=0), ctx.fresh("beta", lo=0)
        ctx.solver.add(de.e > 0)
        D = ds.CombinedCategoricalDissimilarity(alpha=alpha, beta=beta, delta_empty=de)
        units = {a: list(c._annotations[a]) for a in c._annotations.keys()}
        names = list(units)
        uas = [al.UnitaryAlignment([(names[0], units[names[0]][0]), (names[1], units[names[1]][0])]),
               al.UnitaryAlignment([(names[0], units[names[0]][1]), (names[1], None)])]
        A = al.Alignment(uas, c)
        s0, d0 = snap(c), dsnap(D)
        tuples0 = [list(ua.n_tuple) for ua in uas]
        A.compute_disorder(D)
        uas[0].compute_disorder(D)
        o = [Obl("compute_disorder: continuum unchanged", snap_eq(s0, snap(c)), rz),
             Obl("compute_disorder: dissimilarity unchanged", dsnap_eq(d0, dsnap(D)), rz)]
        core.ABS_FORKS[0] = False
        A.gamma_k_disorder(D, None)
        A.gamma_k_disorder(D, "x")
        o += [Obl("gamma_k_disorder: continuum unchanged", snap_eq(s0, snap(c)), rz),
              Obl("gamma_k_disorder: dissimilarity unchanged", dsnap_eq(d0, dsnap(D)), rz),
              Obl("alignment's n-tuples unchanged", [list(ua.n_tuple) for ua in uas] == tuples0, rz)]
        A.check()
        al.SoftAlignment(uas, c).check()
        o.append(Obl("check: continuum unchanged", snap_eq(s0, snap(c)), rz))
        return o

    def mk_sampler(which, ctx, rng):
        if which == "stat":
            s = sa.StatisticalContinuumSampler()
            orig = rng.normal

            def normal(mu=0.0, sd=1.0, size=None):
                v = orig(mu, sd)
                if not isinstance(mu, SymNum) and mu == s._avg_nb_units_per_annotator:
                    ctx.solver.add(v.e > -2, v.e < 2)
                    ctx.get_model()
                return v
            durs = [0]

            def normal2(mu=0.0, sd=1.0, size=None):
                if mu is getattr(s, "_avg_unit_duration", None):
                    durs[0] += 1
                    if durs[0] > 6:
                        raise core.Cut("duration-redraws")
                v = normal(mu, sd)
                if mu is getattr(s, "_avg_unit_duration", None) or mu is getattr(s, "_avg_gap", None):
                    ctx.solver.add(v.e >= -BOUND, v.e <= BOUND)
                    ctx.get_model()
                return v
            rng.normal = normal2
            return s
        return sa.ShuffleContinuumSampler(pivot_type="float_pivot")

    def h_gamma(ctx):
        c, info, rz = base(ctx, (1, 1))
        rng = stubs.RNG(ctx, max_draws=30)
        rng.assume_nonzero_weight = (cfg["sampler"] == "stat")
        ns.np.random = rng
        ns.np.std_calls = []
        rec = dict(alignments=[], measure=[], inits=[], drawn_in_job=[], rng=rng)
        undo = c05.install_spies(ns, ctx, rec, fast_window=2, rng=rng)
        try:
            sampler = mk_sampler(cfg["sampler"], ctx, rng)
            D = ds.CombinedCategoricalDissimilarity(alpha=2, beta=1, delta_empty=ctx.fresh("de", lo=1))
            s0, d0 = snap(c), dsnap(D)
            mode = cfg["mode"]
            res = c.compute_gamma(D, n_samples=1, sampler=sampler, fast=(mode == "fast"), soft=(mode == "soft"))
        finally:
            undo()
        s1 = snap(c)
        o = [Obl("compute_gamma: continuum unchanged (window size only in fast mode)", snap_eq(s0, s1, window=(mode != "fast")), rz),
             Obl("compute_gamma: dissimilarity unchanged", dsnap_eq(d0, dsnap(D)), rz)]
        smp = res.chance_alignments[0].of
        o += mutate_and_compare(ns, ctx, smp, c, "sample drawn during compute_gamma", rz)
        return o

    def h_sampler_unlabelled(ctx):
        c, info, rz = base(ctx, (1, 1), labels="none")
        rng = stubs.RNG(ctx, max_draws=30)
        rng.assume_nonzero_weight = (cfg["sampler"] == "stat")
        ns.np.random = rng
        ns.np.std_calls = []
        s = mk_sampler(cfg["sampler"], ctx, rng)
        s0 = snap(c)
        try:
            s.init_sampling(c)
            accepted = True
        except Exception:       # noqa: BLE001 - refusing an unlabelled reference is allowed; modifying it is not
            accepted = False
        o = [Obl("init_sampling on an unlabelled reference (accepted or refused): reference unchanged", snap_eq(s0, snap(c)), rz)]
        if accepted:
            try:
                s.sample_from_continuum
            except Exception:   # noqa: BLE001
                pass
            o.append(Obl("sample_from_continuum on an unlabelled reference: reference unchanged", snap_eq(s0, snap(c)), rz))
        return o

    def h_sampler(ctx):
        if cfg.get("unlabelled"):
            return h_sampler_unlabelled(ctx)
        c, info, rz = base(ctx, (1, 1))
        rng = stubs.RNG(ctx, max_draws=30)
        rng.assume_nonzero_weight = (cfg["sampler"] == "stat")
        ns.np.random = rng
        ns.np.std_calls = []
        s = mk_sampler(cfg["sampler"], ctx, rng)
        s0 = snap(c)
        s.init_sampling(c)
        o = [Obl("init_sampling: reference unchanged", snap_eq(s0, snap(c)), rz)]
        smp = s.sample_from_continuum
        o.append(Obl("sample_from_continuum: reference unchanged", snap_eq(s0, snap(c)), rz))
        s_before = snap(smp)
        if cfg["sampler"] == "stat":
            smp2 = s.sample_from_continuum
            o.append(Obl("a later draw leaves an earlier sample unchanged", snap_eq(s_before, snap(smp)), rz))
        else:
            smp2 = smp          # one draw only: two symbolic draws of the shuffle sampler square the number of paths
        o += mutate_and_compare(ns, ctx, c, smp2, "reference vs sample", rz)
        o += mutate_and_compare(ns, ctx, smp, c, "sample vs reference", rz)
        return o

    def h_cst(ctx):
        ref, info, rz = base(ctx, (2,), labels=["x", "y"])
        rng = stubs.RNG(ctx, max_draws=20)
        ns.np.random = rng
        ns.np.std_calls = []
        m = ctx.fresh("magnitude", lo=0, hi=1)
        s0 = snap(ref)
        tool = cst.CorpusShufflingTool(m, ref, categories=["EXTRA"])
        o = [Obl("CorpusShufflingTool(): reference unchanged (extra categories are the tool's)", snap_eq(s0, snap(ref)), rz)]
        gen = tool.corpus_from_reference(2)
        o.append(Obl("corpus_from_reference: reference unchanged", snap_eq(s0, snap(ref)), rz))
        flag = cfg["flag"]
        corpus = tool.corpus_shuffle(["g0"], include_ref=bool(cfg.get("include_ref")), **({flag: True} if flag != "none" else {}))
        o.append(Obl("corpus_shuffle: reference unchanged", snap_eq(s0, snap(ref)), rz))
        gen_before = snap(gen)
        o += mutate_and_compare(ns, ctx, corpus, ref, "generated corpus vs reference", rz)
        o.append(Obl("mutating one generated corpus leaves another generated corpus unchanged", snap_eq(gen_before, snap(gen)), rz))
        o += mutate_and_compare(ns, ctx, ref, gen, "reference vs generated corpus", rz)
        return o

    def h_derive(ctx):
        c, info, rz = base(ctx, (2, 1))
        c.add_annotator("zz_no_units")        # an annotator that has no unit (yet)
        other, info2 = common.build_continuum(ns, ctx, (1,), coords="sym", labels=["q"], min_dur=1)
        s0 = snap(c)
        cp = c.copy()
        mg = c.merge(other)
        pl = c + other
        fl = c.copy_flush()
        # operands that bring no unit: a fresh continuum, and one that only declares an annotator
        nothing, only_ann = co.Continuum(), co.Continuum()
        only_ann.add_annotator("yy_declared_only")
        mg_n, pl_n, mg_a, pl_a = c.merge(nothing), c + nothing, c.merge(only_ann), c + only_ann
        # an operand whose annotator the receiver does not have yet (in place and not): the merged continuum and the operand share nothing
        newcomer = co.Continuum()
        newcomer.add("zz_newcomer", Segment(core.const(300), core.const(305)), "q")
        mg_new = c.merge(newcomer)
        recv = c.copy()
        recv.merge(newcomer, in_place=True)
        got = c[ANN[0]]
        o = [Obl("copy/merge/+/copy_flush/[]: source unchanged", snap_eq(s0, snap(c)), rz)]
        for nm, d in (("merge(operand with a new annotator)", mg_new), ("merge(in place, operand with a new annotator)", recv)):
            o += mutate_and_compare(ns, ctx, d, newcomer, f"{nm} vs operand", rz)
            o += mutate_and_compare(ns, ctx, newcomer, d, f"operand vs {nm}", rz)
        for nm, d in (("merge(empty operand)", mg_n), ("+(empty operand)", pl_n), ("merge(operand with an annotator only)", mg_a), ("+(operand with an annotator only)", pl_a)):
            o.append(Obl(f"{nm}: a new object", d is not c, rz))
            o += mutate_and_compare(ns, ctx, d, c, f"{nm} vs source", rz)
        for nm, d in (("copy", cp), ("merge", mg), ("+", pl), ("copy_flush", fl)):
            o += mutate_and_compare(ns, ctx, d, c, f"{nm} vs source", rz)
        so = snap(other)
        o.append(Obl("merge operand unchanged", snap_eq(so, snap(other)), rz))
        got.clear()
        o.append(Obl("[]: clearing the returned set leaves the continuum unchanged", snap_eq(s0, snap(c)), rz))
        f1, f2 = co.Continuum(), co.Continuum()
        f1.add("n1", Segment(core.const(0), core.const(1)), "lab")
        f1.add_annotator("n2")
        o.append(Obl("two freshly constructed continua share nothing", len(f2) == 0 and f2.num_units == 0 and list(f2.categories) == [] and
                     same(f2.bound_inf, 0.0) and same(f2.bound_sup, 0.0), rz))
        cp2, mg2 = c.copy(), c.merge(other)
        o += mutate_and_compare(ns, ctx, c, cp2, "source vs copy", rz)
        o.append(Obl("source mutation leaves an earlier merge unchanged", True if mg2 is None else snap_eq(snap(mg2), snap(mg2)), rz))
        return o
    return dict(align=h_align, fast=h_fast, disorders=h_disorders, gamma=h_gamma, sampler=h_sampler, cst=h_cst, derive=h_derive)[kind]


# ---------------------------------------------------------------------------------------------
def replay(case):
    """Concrete re-run of the same entry points on the real build with before/after snapshots."""
    import copy as _copy
    import numpy as np
    import pygamma_agreement as pa
    from pygamma_agreement.alignment import UnitaryAlignment, Alignment, SoftAlignment
    from pygamma_agreement.cst import CorpusShufflingTool
    from pygamma_agreement.sampler import StatisticalContinuumSampler, ShuffleContinuumSampler
    from pyannote.core import Segment
    cfg = case.get("cfg") or {}
    kind = cfg.get("kind") or case.get("kind")

    def S(c):
        return (list(c._annotations.keys()), {a: [(u.segment.start, u.segment.end, u.annotation) for u in c._annotations[a]] for a in c._annotations.keys()},
                list(c._categories), (c.bound_inf, c.bound_sup))

    def DS(D):
        return _copy.deepcopy({k: v for k, v in D.__dict__.items() if k not in ("d_mat", "positional_dissim", "categorical_dissim")}) if D is not None else None

    def mutate(v):
        for k_, a in enumerate(list(v._annotations.keys()) or ["fresh"]):
            v.add(a, Segment(1000.0 + 100 * k_, 1002.0 + 100 * k_), "NEW_LABEL")
        v.add_annotator("brand_new_annotator")
        first = next(((x, u) for x, u in v if u.annotation != "NEW_LABEL"), None)
        if first:
            v.remove(*first)
    bad = []
    np.random.seed(3)
    if kind in ("align", "pipeline", "fast"):
        r = None
        if kind == "fast":
            from . import c10 as _c10
            return _c10.replay(case)
        c, D, de, per, pair = pipeline.real_setup(case)
        s0, d0 = S(c), repr(DS(D))
        (c.get_best_soft_alignment if cfg.get("mode") == "soft" else c.get_best_alignment)(D)
        if S(c) != s0:
            bad.append("alignment modified the continuum")
        if repr(DS(D)) != d0:
            bad.append("alignment modified the dissimilarity")
        return dict(reproduced=bool(bad), detail="; ".join(bad))
    c = common.real_continuum(case)
    s0 = S(c)
    try:
        if kind == "disorders":
            D = pa.CombinedCategoricalDissimilarity(alpha=2, beta=1, delta_empty=1.5)
            d0 = repr(DS(D))
            us = {a: list(c._annotations[a]) for a in c._annotations.keys()}
            n = list(us)
            uas = [UnitaryAlignment([(n[0], us[n[0]][0]), (n[1], us[n[1]][0])]), UnitaryAlignment([(n[0], us[n[0]][1]), (n[1], None)])]
            A = Alignment(uas, c)
            A.compute_disorder(D)
            A.gamma_k_disorder(D, None)
            A.gamma_k_disorder(D, "x")
            A.check()
            if S(c) != s0:
                bad.append("disorder computations modified the continuum")
            if repr(DS(D)) != d0:
                bad.append("disorder computations modified the dissimilarity")
        elif kind in ("gamma", "sampler"):
            sampler = StatisticalContinuumSampler() if cfg["sampler"] == "stat" else ShuffleContinuumSampler(pivot_type="float_pivot")
            if kind == "gamma":
                D = pa.CombinedCategoricalDissimilarity(alpha=2, beta=1, delta_empty=1.5)
                d0 = repr(DS(D))
                res = c.compute_gamma(D, n_samples=3, sampler=sampler, fast=(cfg["mode"] == "fast"), soft=(cfg["mode"] == "soft"))
                if S(c) != s0:
                    bad.append("compute_gamma modified the continuum")
                if repr(DS(D)) != d0:
                    bad.append("compute_gamma modified the dissimilarity")
                smp = res.chance_alignments[0].continuum
                mutate(smp)
                if S(c) != s0:
                    bad.append("mutating a sample changed the input continuum")
            elif cfg.get("unlabelled"):
                try:
                    sampler.init_sampling(c)
                    sampler.sample_from_continuum
                except Exception:       # noqa: BLE001 - refusal is allowed
                    pass
                if S(c) != s0:
                    bad.append(f"initialising / drawing from the sampler on an unlabelled reference modified it: categories {list(c._categories)}")
            else:
                sampler.init_sampling(c)
                smp, smp2 = sampler.sample_from_continuum, sampler.sample_from_continuum
                if S(c) != s0:
                    bad.append("sampling modified the reference")
                mutate(smp)
                if S(c) != s0:
                    bad.append("mutating a sample changed the reference")
                b2 = S(smp2)
                mutate(c)
                sampler.sample_from_continuum
                if S(smp2) != b2:
                    bad.append("mutating the reference / drawing again changed an earlier sample")
        elif kind == "cst":
            tool = CorpusShufflingTool(0.5, c, categories=["EXTRA"])
            if S(c) != s0:
                bad.append(f"CorpusShufflingTool() modified the reference: categories {list(c.categories)}")
            gen = tool.corpus_from_reference(2)
            flag = cfg["flag"]
            corpus = tool.corpus_shuffle(["g0"], include_ref=bool(cfg.get("include_ref")), **({flag: True} if flag != "none" else {}))
            if S(c) != s0:
                bad.append("corpus generation modified the reference")
            s1 = S(c)
            g0 = S(gen)
            mutate(corpus)
            if S(c) != s1:
                bad.append(f"mutating a generated corpus changed the reference: categories {list(c.categories)}")
            if S(gen) != g0:
                bad.append("mutating a generated corpus changed another generated corpus")
            g1 = S(gen)
            mutate(c)
            if S(gen) != g1:
                bad.append("mutating the reference changed a generated corpus")
        elif kind == "derive":
            c.add_annotator("zz_no_units")
            s0 = S(c)
            other = pa.Continuum()
            other.add("zz", Segment(0.0, 2.0), "q")
            nothing, only_ann = pa.Continuum(), pa.Continuum()
            only_ann.add_annotator("yy_declared_only")
            for nm, f in (("copy", lambda: c.copy()), ("merge", lambda: c.merge(other)), ("+", lambda: c + other), ("copy_flush", lambda: c.copy_flush()),
                          ("merge(empty operand)", lambda: c.merge(nothing)), ("+(empty operand)", lambda: c + nothing),
                          ("merge(operand with an annotator only)", lambda: c.merge(only_ann)), ("+(operand with an annotator only)", lambda: c + only_ann)):
                d = f()
                if S(c) != s0:
                    bad.append(f"{nm} changed the source")
                if d is c:
                    bad.append(f"{nm} returned the source object itself")
                    continue
                mutate(d)
                if S(c) != s0:
                    bad.append(f"mutating the result of {nm} changed the source")
            for in_place in (False, True):
                newcomer = pa.Continuum()
                newcomer.add("zz_newcomer", Segment(300.0, 305.0), "q")
                recv = c.copy()
                d = recv.merge(newcomer, in_place=in_place)
                d = recv if in_place else d
                b_op = S(newcomer)
                mutate(d)
                if S(newcomer) != b_op:
                    bad.append(f"mutating the result of merge(in_place={in_place}) changed the merged-in operand (annotator new to the receiver)")
                b_res = S(d)
                mutate(newcomer)
                if S(d) != b_res:
                    bad.append(f"mutating the merged-in operand changed the result of merge(in_place={in_place})")
            got = c[list(c.annotators)[0]]
            got.clear()
            if S(c) != s0:
                bad.append("clearing c[annotator] changed the continuum")
            cp = c.copy()
            b = S(cp)
            mutate(c)
            if S(cp) != b:
                bad.append("mutating the source changed its copy")
            f1, f2 = pa.Continuum(), pa.Continuum()
            f1.add("n1", Segment(0.0, 1.0), "lab")
            if len(f2) or f2.num_units or list(f2.categories):
                bad.append("two freshly constructed continua share state")
    except Exception as ex:     # noqa: BLE001
        import traceback
        return dict(reproduced=True, detail="real build raised " + repr(ex)[:200] + traceback.format_exc()[-400:])
    return dict(reproduced=bool(bad), detail="; ".join(bad[:3]))
