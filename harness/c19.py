"""C19 -- corpus shuffling yields valid corpora and each perturbation is confined to what it names."""
from fractions import Fraction

import z3

from symx import core, stubs
from symx.core import Obl, SymNum, SymBool, lift, lb, mval
from . import common

META = dict(
    level="model_checking",
    technique="bounded symbolic execution (z3) of CorpusShufflingTool (constructor, corpus_from_reference, every *_shuffle, corpus_shuffle) under a nondeterministic RNG stub, magnitude symbolic",
    design_ref="section 4 / C19",
    claim="For every reference in the bound, every magnitude in [0,1] (symbolic, end points included), every annotator request in the bound and ALL "
          "outcomes of the random draws within the draw budget: corpus_shuffle raises nothing; the corpus has exactly the requested annotators (plus "
          "the reference iff asked), none empty, every unit longer than SEGMENT_PRECISION, labels within the reference's categories; with magnitude 0 "
          "every generated annotator equals the reference; category shuffling keeps every segment, splitting keeps each annotator's total duration "
          "and adds exactly one unit per split, false negatives only remove, false positives only add, shifting keeps the number of units.",
    trusted="z3; RNG stub contract (uniform in [a,b), random in [0,1), randint in [a,b), choice of a non-zero-weight element); np.std as an uninterpreted value >= 0",
    bounds=dict(quick="references: 1 annotator x 2 units (symbolic coordinates; three fixed references for shift, where shift_max = magnitude x mean length "
                      "would be a product of two symbols), 2 categories (x / y, and '' / y: the empty string is a category like any other); 1..2 generated annotators; each flag alone, include_ref, all flags at magnitude 0; "
                      "<= 2 splits, <= 2 added units, per-path draw budget 14",
                thorough="+ 3-unit references, flag pairs, 2 generated annotators everywhere, draw budget 20"),
    outside="references with > 3 units; more than 2 splits / 2 false positives per annotator; the probability law of the perturbations (how often), only "
            "what they may do; overlapping_fun / prevalence variants of category_shuffle (thorough only)",
    stubs=["np.random.* = fresh symbolic draws under their contract, logged", "int() = truncation toward zero", "redraw loops cut by the draw budget (counted)"],
    assumptions=["reference units labelled, longer than SEGMENT_PRECISION, pairwise distinct starts, coordinates in [-64, 64]", "0 <= magnitude <= 1"],
    cfg_budget_s=dict(quick=240, thorough=900),
)

FIXED_REFS = [[(0, 4), (10, 15)], [(0, 10), (2, 5)], [(1, 2), (2, 3)], [(0, 8), (2, 10)]]
SAME_LABEL_REFS = {3}       # references whose units all carry the same label (two long overlapping units of one category)
FLAGS = ["shift", "false_pos", "false_neg", "cat_shuffle", "split"]


def configs(tier):
    out = []
    for flag in FLAGS:
        if flag == "shift":
            for ri in range(len(FIXED_REFS)):
                out.append(dict(key=f"shift,fixed-ref={ri},annotators=1", flags=["shift"], ref=("fixed", ri), anns=1, cost=400))
        else:
            for anns in ((1, 2) if flag in ("false_neg", "cat_shuffle") else (1,)):
                out.append(dict(key=f"{flag},symbolic-ref,annotators={anns}", flags=[flag], ref=("sym", 2), anns=anns, cost=300 * anns))
    # interactions between two perturbations (each judged against the corpus it was given)
    out.append(dict(key="shift+false_neg,fixed-ref=0,annotators=1", flags=["shift", "false_neg"], ref=("fixed", 0), anns=1, budget=20, cost=3000, split=24))
    out.append(dict(key="false_pos+false_neg,symbolic-ref,annotators=1", flags=["false_pos", "false_neg"], ref=("sym", 2), anns=1, budget=20, cost=2000, split=24))
    # a perturbation that changes the number of units, then the split (whose announced number of splits comes from the REFERENCE)
    out.append(dict(key="false_neg+split,symbolic-ref,annotators=1", flags=["false_neg", "split"], ref=("sym", 2), anns=1, budget=20, cost=3000, split=24))
    out.append(dict(key="include_ref,symbolic-ref,annotators=2", flags=[], ref=("sym", 2), anns=2, include_ref=True, cost=20))
    out.append(dict(key="named-annotators,symbolic-ref", flags=[], ref=("sym", 2), anns=["zoe", "abe"], cost=20))
    out.append(dict(key="all-flags,magnitude=0,symbolic-ref", flags=list(FLAGS), ref=("sym", 2), anns=2, m0=True, include_ref=True, budget=60, cost=100))
    # a reference using the empty string as a label (a category like any other: copies keep it, it is not "no label")
    out.append(dict(key="all-flags,magnitude=0,symbolic-ref,labels=['', 'y']", flags=list(FLAGS), ref=("sym", 2), anns=2, m0=True, include_ref=True, labs=["", "y"], budget=60, cost=100))
    out.append(dict(key="false_neg,symbolic-ref,annotators=1,labels=['', 'y']", flags=["false_neg"], ref=("sym", 2), anns=1, labs=["", "y"], cost=300))
    out.append(dict(key="extra-categories,symbolic-ref", flags=["cat_shuffle"], ref=("sym", 2), anns=1, extra_cats=["zz"], cost=100))
    # one tool object used several times: a first shuffle at magnitude m, then `tool.magnitude = 0` and a second shuffle
    for flag in ("cat_shuffle", "false_neg", "split") + (("shift",) if tier == "thorough" else ()):
        out.append(dict(key=f"tool-reused,{flag},then-magnitude-0", flags=[flag], ref=("fixed", 0) if flag == "shift" else ("sym", 2), anns=1, reuse=True,
                        budget=30, cost=600))
    if tier == "thorough":
        for flag in FLAGS:
            if flag != "shift":
                out.append(dict(key=f"{flag},symbolic-ref-3-units,annotators=1", flags=[flag], ref=("sym", 3), anns=1, budget=20, cost=5000))
        out.append(dict(key="shift,fixed-ref=0,annotators=2", flags=["shift"], ref=("fixed", 0), anns=2, budget=20, cost=8000))
        for pair in (["false_neg", "cat_shuffle"], ["cat_shuffle", "split"], ["false_pos", "false_neg"]):
            out.append(dict(key=f"{'+'.join(pair)},symbolic-ref,annotators=1", flags=pair, ref=("sym", 2), anns=1, budget=20, cost=8000))
    return out


def harness(cfg, ns):
    cst, co, Segment = ns.cst, ns.co, ns.Segment
    PREC = ns.pseg.SEGMENT_PRECISION
    flags = cfg["flags"]

    def h(ctx):
        rng = stubs.RNG(ctx, max_draws=cfg.get("budget", 14))
        ns.np.random = rng
        ns.np.std_calls = []
        ref = co.Continuum()
        inputs = []
        runits = []
        kind, arg = cfg["ref"]
        if kind == "fixed":
            for k, (a, b) in enumerate(FIXED_REFS[arg]):
                st, en = core.const(a), core.const(b)
                lab_ = "x" if arg in SAME_LABEL_REFS else "xy"[k % 2]
                ref.add("ref", Segment(st, en), lab_)
                runits.append((st, en, lab_))
        else:
            prev = None
            for k in range(arg):
                st, en = ctx.fresh(f"s{k}_"), ctx.fresh(f"e{k}_")
                ctx.solver.add(en.e - st.e > lift(PREC), st.e >= -64, en.e <= 64)     # bounded coordinates (stated)
                if prev is not None:
                    ctx.solver.add(st.e > prev.e)
                prev = st
                lab_ = cfg.get("labs", "xy")[k % 2]
                ref.add("ref", Segment(st, en), lab_)
                runits.append((st, en, lab_))
                inputs += [st, en]
        if cfg.get("m0"):
            m = core.const(0)
        else:
            m = ctx.fresh("magnitude", lo=0, hi=1)
            inputs.append(m)
        ref_cats = list(ref.categories)
        ref_snapshot = [(u.segment.start, u.segment.end, u.annotation) for u in ref._annotations["ref"]]
        tool = cst.CorpusShufflingTool(m, ref, categories=cfg.get("extra_cats"))
        anns = cfg["anns"]
        names = [f"annotator_{i}" for i in range(anns)] if isinstance(anns, int) else list(anns)

        def rz(mdl):
            draws = []
            for rec in rng.log:
                if rec[0] in ("uniform", "normal", "randint"):
                    draws.append([rec[0], common.frs(mval(mdl, rec[-1]))])
                elif rec[0] == "random":
                    draws.append(["random", common.frs(mval(mdl, rec[1]))])
                elif rec[0] == "choice":
                    draws.append(["choice", rec[3]])
            return dict(kind="cst", reuse=bool(cfg.get("reuse")), flags=flags, anns=anns, include_ref=bool(cfg.get("include_ref")), extra_cats=cfg.get("extra_cats"),
                        magnitude=common.frs(mval(mdl, m)), draws=draws,
                        ref=[[common.frs(mval(mdl, s)), common.frs(mval(mdl, e)), lab] for s, e, lab in runits])
        ctx.notes["realize"] = rz
        ctx.notes["inputs"] = inputs
        # bound the loop counts that depend on the magnitude
        for fl, factor, count in (("split", cst.CorpusShufflingTool.SPLIT_FACTOR, Fraction(len(runits), 1)),
                                  ("false_pos", cst.CorpusShufflingTool.FALSE_POS_FACTOR, 1)):
            if fl in flags and not cfg.get("m0"):
                ctx.solver.add(m.e * lift(factor) * lift(count) < 3)          # <= 2 iterations (stated bound)
        ctx.get_model()
        ADDS = []
        orig_add = co.Continuum.add

        CUR = [None, None]      # perturbation running now, units it was given

        def spy_add(self, annotator, segment, annotation=None):
            ADDS.append((annotator, segment.start, segment.end, annotation, CUR[0], CUR[1]))
            return orig_add(self, annotator, segment, annotation)
        co.Continuum.add = spy_add
        STEPS = []          # (perturbation name, snapshot before, snapshot after) for every perturbation that ran, in order
        saved_steps = {}

        def snap_units(cc):
            return {a: [(u.segment.start, u.segment.end, u.annotation) for u in cc._annotations[a]] for a in cc._annotations.keys()}
        for meth, nm in (("shift_shuffle", "shift"), ("false_pos_shuffle", "false_pos"), ("false_neg_shuffle", "false_neg"),
                         ("category_shuffle", "cat_shuffle"), ("splits_shuffle", "split")):
            orig_m = getattr(cst.CorpusShufflingTool, meth)
            saved_steps[meth] = orig_m

            def wrapper(self_, continuum, *a, _o=orig_m, _n=nm, **k):
                before = snap_units(continuum)
                mag = self_.magnitude
                CUR[0], CUR[1] = _n, before
                try:
                    r_ = _o(self_, continuum, *a, **k)
                finally:
                    CUR[0], CUR[1] = None, None
                STEPS.append((_n, before, snap_units(continuum), mag))
                return r_
            setattr(cst.CorpusShufflingTool, meth, wrapper)
        try:
            corpus = tool.corpus_shuffle(anns, include_ref=bool(cfg.get("include_ref")), **{f: True for f in flags})
            if cfg.get("reuse"):
                first_corpus = corpus
                first_snapshot = [(a, u.segment.start, u.segment.end, u.annotation) for a, u in first_corpus]
                tool.magnitude = 0.0
                corpus = tool.corpus_shuffle(anns, shift=True, false_pos=True, false_neg=True, split=True, cat_shuffle=True)
        finally:
            co.Continuum.add = orig_add
            for meth, orig_m in saved_steps.items():
                setattr(cst.CorpusShufflingTool, meth, orig_m)
        if cfg.get("reuse"):
            o2 = [Obl("tool re-used at magnitude 0: annotators", list(corpus.annotators) == sorted(names), rz),
                  Obl("tool re-used: the first corpus is not touched by the second shuffle",
                      [(a, u.segment.start, u.segment.end, u.annotation) for a, u in first_corpus] == first_snapshot, rz)]
            for a in names:
                if a in corpus._annotations:
                    us = [(u.segment.start, u.segment.end, u.annotation) for u in corpus._annotations[a]]
                    o2.append(Obl("tool re-used at magnitude 0: annotator==reference",
                                  SymBool(z3.And(z3.BoolVal(len(us) == len(runits)),
                                                 *[z3.Or(*[z3.And(lift(x[0]) == lift(y[0]), lift(x[1]) == lift(y[1]), z3.BoolVal(x[2] == y[2])) for y in us])
                                                   for x in runits])) if us else False, rz))
            return o2
        # known-finding regions (see known_findings.json)
        unis = [lift(r[3]) for r in rng.log if r[0] == "uniform" and not isinstance(r[1], SymNum) and not isinstance(r[2], SymNum) and r[1] == -1 and r[2] == 1]
        shift_max = lift(m * cst.CorpusShufflingTool.SHIFT_FACTOR * ref.avg_length_unit)

        def documented_shift(w_):
            given = [u_ for u_ in (w_[5] or {}).get(w_[0], []) if u_[2] == w_[3]]
            alts = [z3.And(lift(w_[1]) == lift(g[0]) + d1 * shift_max, lift(w_[2]) == lift(g[1]) + d2 * shift_max) for g in given for d1 in unis for d2 in unis]
            return z3.Or(*alts) if alts else z3.BoolVal(False)
        pairs = []
        for i1, x in enumerate(ADDS):
            for y in ADDS[i1 + 1:]:
                if x[0] == y[0] and x[3] == y[3]:
                    both = [lift(x[1]) == lift(y[1]), lift(x[2]) == lift(y[2])]
                    # the recorded finding is an exact coincidence of CONTINUOUS draws: for units produced by the shifting step the
                    # region also demands that each of the two is a unit it was given, moved by the documented amounts (a draw of
                    # uniform(-1, 1) times shift_max at either end) - a coincidence manufactured in any other way is a new violation
                    for w_ in (x, y):
                        if w_[4] == "shift":
                            both.append(documented_shift(w_))
                    pairs.append(z3.And(*both))
        coincide = z3.Or(*pairs) if pairs else z3.BoolVal(False)
        short = []
        for rec in rng.log:
            if rec[0] == "uniform" and "split" in flags and isinstance(rec[1], SymNum) or (rec[0] == "uniform" and flags == ["split"]):
                a_, b_, v_ = lift(rec[1]), lift(rec[2]), lift(rec[3])
                start_ = (a_ - b_ / 100) * 100 / 99
                short.append(z3.Or(b_ - v_ <= lift(PREC), v_ - start_ <= lift(PREC)))
        too_short = z3.Or(*short) if short else z3.BoolVal(False)
        K_COINC = ("C19-coinciding-units", coincide)
        K_SHORT = ("C19-split-too-short", too_short)
        ctx.notes["inputs"] = inputs + [r[-1] for r in rng.log if r[0] in ("uniform", "normal")] + [r[1] for r in rng.log if r[0] == "random"]
        want_names = sorted(names + (["ref"] if cfg.get("include_ref") else []))
        obls = [Obl("annotators==requested(+reference iff asked)", list(corpus.annotators) == want_names, rz)]
        allowed = set(ref_cats) | set(cfg.get("extra_cats") or [])
        for a in corpus.annotators:
            us = list(corpus._annotations[a])
            obls.append(Obl("no-empty-annotator", len(us) >= 1, rz))
            for u in us:
                obls.append(Obl("unit-longer-than-precision", SymBool(lift(u.segment.end) - lift(u.segment.start) > lift(PREC)), rz))
                obls.append(Obl("label-in-reference-categories", u.annotation in allowed, rz))
        obls.append(Obl("reference-untouched", [(u.segment.start, u.segment.end, u.annotation) for u in ref._annotations["ref"]] == ref_snapshot
                        and list(ref._annotations.keys()) == ["ref"], rz))
        if cfg.get("include_ref") and "ref" in corpus._annotations:
            got = [(u.segment.start, u.segment.end, u.annotation) for u in corpus._annotations["ref"]]
            obls.append(Obl("included-reference==reference", got == ref_snapshot, rz))
        for a in names:
            if a not in corpus._annotations:
                continue
            us = [(u.segment.start, u.segment.end, u.annotation) for u in corpus._annotations[a]]

            def present(x, L, with_label=True):
                return z3.Or(*[z3.And(lift(x[0]) == lift(y[0]), lift(x[1]) == lift(y[1]), z3.BoolVal((x[2] == y[2]) or not with_label)) for y in L]) \
                    if L else z3.BoolVal(False)
            if not flags or cfg.get("m0"):
                obls.append(Obl("magnitude-0/no-flag: annotator==reference", SymBool(z3.And(z3.BoolVal(len(us) == len(runits)), *[present(x, us) for x in runits])), rz))
        # confinement of every perturbation that ran, judged against the corpus IT was given (any combination of flags)
        def present(x, L, with_label=True):
            return z3.Or(*[z3.And(lift(x[0]) == lift(y[0]), lift(x[1]) == lift(y[1]), z3.BoolVal((x[2] == y[2]) or not with_label)) for y in L]) \
                if L else z3.BoolVal(False)
        for (step, before, after, mag) in STEPS:
            obls.append(Obl(f"{step}: annotators kept", list(before) == list(after), rz))
            for a in before:
                b_, a_ = before[a], after.get(a, [])
                if step == "cat_shuffle":
                    obls.append(Obl("cat_shuffle: segments kept", SymBool(z3.And(z3.BoolVal(len(a_) == len(b_)), *[present(x, a_, False) for x in b_])), rz, known=[K_COINC]))
                elif step == "false_neg":
                    obls.append(Obl("false_neg: only removes", SymBool(z3.And(z3.BoolVal(len(a_) <= len(b_)), *[present(x, b_) for x in a_])), rz))
                elif step == "false_pos":
                    obls.append(Obl("false_pos: only adds", SymBool(z3.And(z3.BoolVal(len(a_) >= len(b_)), *[present(x, a_) for x in b_])), rz))
                elif step == "shift":
                    obls.append(Obl("shift: keeps the number of units", len(a_) == len(b_), rz, known=[K_COINC]))
                    obls.append(Obl("shift: labels kept", sorted(str(x[2]) for x in a_) == sorted(str(x[2]) for x in b_) or len(a_) != len(b_), rz))
                elif step == "split":
                    nsplit = core.s_int(mag * cst.CorpusShufflingTool.SPLIT_FACTOR * Fraction(len(runits), 1))
                    tot, tot_b = 0, 0
                    for x in a_:
                        tot = tot + (x[1] - x[0])
                    for x in b_:
                        tot_b = tot_b + (x[1] - x[0])
                    obls.append(Obl("split: total duration kept", core.eq(tot, tot_b), rz, known=[K_COINC]))
                    obls.append(Obl("split: one more unit per split", core.eq(nsplit + len(b_), len(a_)), rz, known=[K_COINC, K_SHORT]))
                    obls.append(Obl("split: labels kept", all(lab in [r[2] for r in b_] for _, _, lab in a_), rz))
        obls.append(Obl("every requested perturbation ran once, in the documented order",
                        [st_[0] for st_ in STEPS] == [f for f in ("shift", "false_pos", "false_neg", "cat_shuffle", "split") if f in flags], rz))
        return obls
    return h


# ---------------------------------------------------------------------------------------------
def replay(case):
    import numpy as np
    import pygamma_agreement as pa
    import pyannote.core.segment as pseg
    from pygamma_agreement.cst import CorpusShufflingTool
    from pyannote.core import Segment
    from unittest import mock
    F = lambda x: float(Fraction(x))     # noqa: E731
    draws = list(case["draws"])

    def take(kind):
        while draws and draws[0][0] != kind:
            # the real build may consume draws in the same order only; a mismatch means divergence
            raise RuntimeError(f"replay expected a {draws[0][0]} draw, the code asked for {kind}")
        if not draws:
            raise RuntimeError("replay ran out of recorded draws")
        return draws.pop(0)[1]

    def uniform(a=0.0, b=1.0, size=None):
        return F(take("uniform"))

    def normal(mu=0.0, sd=1.0, size=None):
        return F(take("normal"))

    def random(size=None):
        return F(take("random"))

    def randint(a, b=None, size=None):
        return int(F(take("randint")))

    def choice(seq, size=None, replace=True, p=None):
        return list(seq)[take("choice")]
    ref = pa.Continuum()
    for s, e, lab in case["ref"]:
        ref.add("ref", Segment(F(s), F(e)), lab)
    ref_units = [(u.segment.start, u.segment.end, u.annotation) for u in ref._annotations["ref"]]
    ref_cats = list(ref.categories)
    m = F(case["magnitude"])
    flags = case["flags"]
    bad = []
    STEPS = []

    def snap_units(cc):
        return {a: [(u.segment.start, u.segment.end, u.annotation) for u in cc._annotations[a]] for a in cc._annotations.keys()}
    step_patches = []
    for meth, nm in (("shift_shuffle", "shift"), ("false_pos_shuffle", "false_pos"), ("false_neg_shuffle", "false_neg"),
                     ("category_shuffle", "cat_shuffle"), ("splits_shuffle", "split")):
        orig_m = getattr(CorpusShufflingTool, meth)

        def wrapper(self_, continuum, *a, _o=orig_m, _n=nm, **k):
            before = snap_units(continuum)
            mag = self_.magnitude
            r_ = _o(self_, continuum, *a, **k)
            STEPS.append((_n, before, snap_units(continuum), mag))
            return r_
        step_patches.append(mock.patch.object(CorpusShufflingTool, meth, wrapper))
    for sp in step_patches:
        sp.start()
    try:
        with mock.patch("numpy.random.uniform", uniform), mock.patch("numpy.random.normal", normal), mock.patch("numpy.random.random", random), \
                mock.patch("numpy.random.randint", randint), mock.patch("numpy.random.choice", choice):
            tool = CorpusShufflingTool(m, ref, categories=case.get("extra_cats"))
            corpus = tool.corpus_shuffle(case["anns"], include_ref=case["include_ref"], **{f: True for f in flags})
            if case.get("reuse"):
                tool.magnitude = 0.0
                corpus = tool.corpus_shuffle(case["anns"], shift=True, false_pos=True, false_neg=True, split=True, cat_shuffle=True)
                flags, m = [], 0.0
    except RuntimeError as ex:
        return dict(reproduced=None, detail=str(ex))
    except Exception as ex:     # noqa: BLE001
        return dict(reproduced=True, detail="corpus_shuffle raised " + repr(ex)[:300])
    finally:
        for sp in step_patches:
            sp.stop()
    # every perturbation that ran, judged against the corpus it was given
    for (step, before, after, mag) in STEPS:
        for a in before:
            b_, a_ = before[a], after.get(a, [])
            if step == "cat_shuffle" and [(x[0], x[1]) for x in a_] != [(x[0], x[1]) for x in b_]:
                bad.append(f"{a}: category shuffle changed segments {b_} -> {a_}")
            if step == "false_neg" and not set(a_) <= set(b_):
                bad.append(f"{a}: false negatives added or changed units: {sorted(set(a_) - set(b_))} not in the corpus they were given")
            if step == "false_pos" and not set(a_) >= set(b_):
                bad.append(f"{a}: false positives removed units {sorted(set(b_) - set(a_))}")
            if step == "shift" and len(a_) != len(b_):
                bad.append(f"{a}: shift changed the number of units {len(b_)} -> {len(a_)}")
            if step == "split":
                nsplit = int(mag * CorpusShufflingTool.SPLIT_FACTOR * len(ref_units))
                if len(a_) != len(b_) + nsplit:
                    bad.append(f"{a}: {len(a_)} units after {nsplit} splits of {len(b_)}")
                if abs(sum(e - s for s, e, _ in a_) - sum(e - s for s, e, _ in b_)) > 1e-6 * max(1.0, sum(e - s for s, e, _ in b_)):
                    bad.append(f"{a}: total duration changed by splitting")
    anns = case["anns"]
    names = [f"annotator_{i}" for i in range(anns)] if isinstance(anns, int) else list(anns)
    want = sorted(names + (["ref"] if case["include_ref"] else []))
    if list(corpus.annotators) != want:
        bad.append(f"annotators {list(corpus.annotators)} != {want}")
    allowed = set(ref_cats) | set(case.get("extra_cats") or [])
    if [(u.segment.start, u.segment.end, u.annotation) for u in ref._annotations["ref"]] != ref_units:
        bad.append("reference modified")
    for a in corpus.annotators:
        us = [(u.segment.start, u.segment.end, u.annotation) for u in corpus._annotations[a]]
        if not us:
            bad.append(f"{a} empty")
        for s, e, lab in us:
            if not (e - s > pseg.SEGMENT_PRECISION):
                bad.append(f"{a}: unit ({s},{e}) not longer than precision")
            if lab not in allowed:
                bad.append(f"{a}: label {lab!r} not a reference category")
        if a == "ref":
            if us != ref_units:
                bad.append("included reference differs from the reference")
            continue
        if not flags or m == 0:
            if us != ref_units:
                bad.append(f"{a} != reference although nothing was to be changed")
    return dict(reproduced=bool(bad), detail="; ".join(bad[:3])[:500])
