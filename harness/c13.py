"""C13 -- a Continuum behaves as sorted unit sets per annotator under any history.

(1) order lemma on Unit (strict total order (start, end, label with None first), consistent with ==);
(2) one-operation inductive step: from ANY pre-state satisfying the representation invariant (built by
    real `add` calls; symbolic coordinates, symbolic slack on the bounds, extra categories) one operation
    with symbolic arguments yields the state the set-per-annotator model predicts and re-establishes the
    invariant.  One step from an arbitrary invariant state covers histories of any length.
"""
import itertools
from fractions import Fraction

import z3

from symx import core
from symx.core import Obl, SymNum, SymBool, lift, lb, mval
from . import common

META = dict(
    level="model_checking",
    technique="bounded symbolic execution (z3) of Unit ordering and of one Continuum operation from an arbitrary invariant pre-state (inductive step), real SortedSet/SortedDict running on symbolic units",
    design_ref="section 4 / C13",
    claim="Order lemma: for all real coordinates and all label triples over {None,'','a','b'}, Unit's <, <=, >, >=, == form the documented strict total "
          "order. Inductive step: for every pre-state in the bound (any coordinates, any bounds slack, extra categories) and every operation of "
          "{add, add_annotator, remove, merge in/out of place, copy, copy_flush, reset_bounds, ==, item access, iteration, counts} with symbolic "
          "arguments, the post-state equals the set-per-annotator model's, satisfies the invariant (sorted strictly, no duplicates, categories cover "
          "labels, bounds enclose units), copies/merges carry units AND categories, zero-length adds raise ValueError and change nothing.",
    trusted="z3; sortedcontainers' code runs for real on symbolic values (hash stand-in makes sets fall back on ==); induction: a violation needs a "
            "pre-state reachable by real adds, which is how pre-states are built",
    bounds=dict(quick="pre-states <= 2 annotators x <= 2 units, label patterns over {None,'a','b'}; second operand of merge/== <= 2 units",
                thorough="pre-states up to (2,2) and (3,), all label patterns for <= 3 units"),
    outside="histories are covered through the induction only; > 3 units per annotator in the pre-state (SortedSet's list-of-lists load factor 1000 is never reached)",
    stubs=["Segment.__hash__ = constant (set/dict/SortedSet decide by ==)", "min/max merged as ite"],
    assumptions=["segments of the pre-state longer than SEGMENT_PRECISION", "pre-state units of one annotator pairwise distinct by value"],
    cfg_budget_s=dict(quick=240, thorough=900),
)

ALPHA = [None, "", "a", "b"]       # the empty string is a label too (and it is falsy, like None)
OPS = ["add", "add_zero", "add_annotator", "remove_present", "remove_absent", "copy", "copy_flush", "reset_bounds",
       "merge", "merge_inplace", "eq", "views", "add_many"]


def configs(tier):
    out = []
    for labs in itertools.product(ALPHA, repeat=2):
        out.append(dict(key=f"order-lemma,pair,labels={labs}", kind="order2", labels=list(labs), cost=20))
    trip = list(itertools.product(ALPHA, repeat=3))
    for labs in (trip if tier == "thorough" else [t for i, t in enumerate(trip) if i % 3 == 0 or None in t][:14]):
        out.append(dict(key=f"order-lemma,triple,labels={labs}", kind="order3", labels=list(labs), cost=200))
    pre = [((1,), [None]), ((1,), ["a"]), ((2,), [None, None]), ((2,), ["a", None]), ((2,), ["a", "b"]), ((2,), ["", None]), ((2,), [None, ""]),
           ((1, 1), [None, "a"]), ((1, 1), ["b", "b"]), ((0, 1), ["a"]), ((2, 1), ["a", "a", None])]
    if tier == "thorough":
        pre += [((2, 2), ["a", None, "b", "a"]), ((3,), ["a", "a", "b"]), ((3,), [None, "a", None]), ((2, 1), [None, None, "b"]),
                ((2,), ["b", "a"]), ((1, 1), [None, None])]
    for sizes, labs in pre:
        for op in OPS:
            nl = [None, "a", "c", ""] if op in ("add", "remove_absent", "remove_present") else [None]
            for newlab in nl:
                if op == "remove_present" and newlab != None:      # noqa: E711
                    continue
                out.append(dict(key=f"step,{op},pre={sizes},labels={labs},arg-label={newlab}", kind="step", op=op, sizes=list(sizes),
                                labels=list(labs), newlab=newlab, cost=30 * (sum(sizes) + 1) ** 2))
    return out


# ---------------------------------------------------------------------------------------------
def lab_lt(l1, l2):
    if l1 == l2:
        return False
    if l1 is None:
        return True
    if l2 is None:
        return False
    return l1 < l2


def ref_lt(u, v):
    """documented order on (start, end, label): z3 formula"""
    (s1, e1, l1), (s2, e2, l2) = u, v
    s1, e1, s2, e2 = lift(s1), lift(e1), lift(s2), lift(e2)
    return z3.Or(s1 < s2, z3.And(s1 == s2, e1 < e2), z3.And(s1 == s2, e1 == e2, z3.BoolVal(lab_lt(l1, l2))))


def ref_eq(u, v):
    (s1, e1, l1), (s2, e2, l2) = u, v
    return z3.And(lift(s1) == lift(s2), lift(e1) == lift(e2), z3.BoolVal(l1 == l2))


def tup(unit):
    return (unit.segment.start, unit.segment.end, unit.annotation)


def member(x, L):
    return z3.Or(*[ref_eq(x, y) for y in L]) if L else z3.BoolVal(False)


def same_set(L1, L2):
    return z3.And(*([member(x, L2) for x in L1] + [member(y, L1) for y in L2] + [z3.BoolVal(True)]))


def strictly_sorted(L):
    return z3.And(*([ref_lt(a, b) for a, b in zip(L, L[1:])] + [z3.BoolVal(True)]))


def snapshot(c):
    """internal state as plain data: annotators in container order, units as (start, end, label)"""
    return dict(ann=list(c._annotations.keys()), units={a: [tup(u) for u in c._annotations[a]] for a in c._annotations.keys()},
                cats=list(c._categories), bounds=(c.bound_inf, c.bound_sup))


def same_state(s1, s2, with_bounds=True, with_cats=True):
    conds = [z3.BoolVal(s1["ann"] == s2["ann"])]
    if s1["ann"] == s2["ann"]:
        for a in s1["ann"]:
            L1, L2 = s1["units"][a], s2["units"][a]
            conds.append(z3.BoolVal(len(L1) == len(L2)))
            if len(L1) == len(L2):
                conds += [ref_eq(x, y) for x, y in zip(L1, L2)]
    if with_cats:
        conds.append(z3.BoolVal(s1["cats"] == s2["cats"]))
    if with_bounds:
        conds.append(lift_b(s1["bounds"][0]) == lift_b(s2["bounds"][0]))
        conds.append(lift_b(s1["bounds"][1]) == lift_b(s2["bounds"][1]))
    return z3.And(*conds)


def lift_b(x):
    return lift(x)


def invariant(s):
    conds = [z3.BoolVal(s["ann"] == sorted(s["ann"]) and len(set(s["ann"])) == len(s["ann"]))]
    labels = set()
    for a in s["ann"]:
        L = s["units"][a]
        conds.append(strictly_sorted(L))
        for (st, en, lab) in L:
            conds.append(lift(s["bounds"][0]) <= lift(st))
            conds.append(lift(s["bounds"][1]) >= lift(en))
            if lab is not None:
                labels.add(lab)
    conds.append(z3.BoolVal(labels <= set(s["cats"]) and s["cats"] == sorted(set(s["cats"]))))
    return z3.And(*conds)


def build_pre(ns, ctx, sizes, labels, prefix="", slack=True, names=None):
    """arbitrary invariant pre-state: real adds, symbolic coordinates (no order assumed), bounds slack, one extra category"""
    Segment = ns.Segment
    c = ns.co.Continuum()
    names = names or ["p", "q", "r"]
    k = 0
    inputs = []
    allu = {}
    for a, s in enumerate(sizes):
        c.add_annotator(names[a])
        mine = []
        for j in range(s):
            st, en = ctx.fresh(f"{prefix}s{k}_"), ctx.fresh(f"{prefix}e{k}_")
            ctx.solver.add(en.e - st.e > lift(ns.pseg.SEGMENT_PRECISION))
            u = (st, en, labels[k])
            for v in mine:
                ctx.solver.add(z3.Not(ref_eq(u, v)))       # pairwise distinct by value
            mine.append(u)
            inputs += [st, en]
            k += 1
        allu[names[a]] = mine
    ctx.model = None
    for a, s in enumerate(sizes):
        for (st, en, lab) in allu[names[a]]:
            c.add(names[a], Segment(st, en), lab)
    if slack:
        lo, hi = ctx.fresh(f"{prefix}slack_lo", lo=0), ctx.fresh(f"{prefix}slack_hi", lo=0)
        c.bound_inf = c.bound_inf - lo
        c.bound_sup = c.bound_sup + hi
        c._categories.add("zz")        # a category no unit uses any more (left by a removed unit)
        inputs += [lo, hi]
    return c, allu, inputs


def harness(cfg, ns):
    kind = cfg["kind"]
    co, Segment = ns.co, ns.Segment
    Unit = co.Unit
    PREC = ns.pseg.SEGMENT_PRECISION

    def mk_units(ctx, labels):
        us, ts, inputs = [], [], []
        for i, lab in enumerate(labels):
            s, e = ctx.fresh(f"s{i}_"), ctx.fresh(f"e{i}_")
            us.append(Unit(Segment(s, e), lab))
            ts.append((s, e, lab))
            inputs += [s, e]
        return us, ts, inputs

    def h_order(ctx):
        labels = cfg["labels"]
        us, ts, inputs = mk_units(ctx, labels)
        ctx.notes["inputs"] = inputs

        def rz(m):
            return dict(kind="order", units=[[common.frs(mval(m, s)), common.frs(mval(m, e)), lab] for s, e, lab in ts])
        ctx.notes["realize"] = rz
        obls = []
        n = len(us)
        lt = {}
        eqv = {}
        for i in range(n):
            for j in range(n):
                lt[(i, j)] = bool(us[i] < us[j])
                eqv[(i, j)] = bool(us[i] == us[j])
        for i in range(n):
            obls.append(Obl("irreflexive", not lt[(i, i)], rz))
            obls.append(Obl("eq-reflexive", eqv[(i, i)], rz))
            for j in range(n):
                obls.append(Obl("lt==documented-order", SymBool(ref_lt(ts[i], ts[j]) == z3.BoolVal(lt[(i, j)])), rz))
                obls.append(Obl("eq==same-(start,end,label)", SymBool(ref_eq(ts[i], ts[j]) == z3.BoolVal(eqv[(i, j)])), rz))
                if i != j:
                    obls.append(Obl("asymmetric", not (lt[(i, j)] and lt[(j, i)]), rz))
                    obls.append(Obl("trichotomous", (lt[(i, j)] + lt[(j, i)] + eqv[(i, j)]) == 1, rz))
                    obls.append(Obl("hash-consistent-with-eq", (not eqv[(i, j)]) or hash(us[i]) == hash(us[j]), rz))
                    le, gt, ge = bool(us[i] <= us[j]), bool(us[i] > us[j]), bool(us[i] >= us[j])
                    obls.append(Obl("le==lt-or-eq", le == (lt[(i, j)] or eqv[(i, j)]), rz))
                    obls.append(Obl("gt==reverse-lt", gt == lt[(j, i)], rz))
                    obls.append(Obl("ge==not-lt", ge == (not lt[(i, j)]), rz))
                for k in range(n):
                    if len({i, j, k}) == 3 or (n == 2 and i != j):
                        obls.append(Obl("transitive", (not (lt[(i, j)] and lt[(j, k)])) or lt[(i, k)], rz))
        return obls

    def h_step(ctx):
        sizes, labels, op, newlab = tuple(cfg["sizes"]), cfg["labels"], cfg["op"], cfg["newlab"]
        c, allu, inputs = build_pre(ns, ctx, sizes, labels)
        names = list(allu.keys())
        pre = snapshot(c)
        E = dict(pre_units=allu, inputs=inputs, extra={})

        def rz(m):
            case = dict(kind="step", op=op, newlab=newlab, sizes=list(sizes),
                        pre=[[a, common.frs(mval(m, s)), common.frs(mval(m, e)), lab] for a in names for (s, e, lab) in allu[a]],
                        annotators=names, extra={k: (common.frs(mval(m, v)) if isinstance(v, SymNum) else v) for k, v in E["extra"].items()})
            return case
        ctx.notes["realize"] = rz
        ctx.notes["inputs"] = inputs
        obls = [Obl("pre-state-satisfies-invariant", SymBool(invariant(pre)), rz)]
        model_units = {a: list(pre["units"][a]) for a in pre["ann"]}
        # every public view is read once BEFORE the operation: whatever a view may memoise must not survive the operation
        _ = (c.num_units, len(c), bool(c), list(c.annotators), list(c.categories), c.bounds, list(c), c.num_annotators,
             c.max_num_annotations_per_annotator, [list(c[a]) for a in pre["ann"]], [list(c.iter_annotator(a)) for a in pre["ann"]])
        if c.num_units:
            _ = (c.avg_num_annotations_per_annotator, c.avg_length_unit)

        def post_checks(c2, want_units, want_ann, tag, want_cats=None, bounds=None):
            post = snapshot(c2)
            o = [Obl(f"{tag}:invariant-after", SymBool(invariant(post)), rz),
                 Obl(f"{tag}:annotators==model", post["ann"] == want_ann, rz)]
            if post["ann"] == want_ann:
                for a in want_ann:
                    o.append(Obl(f"{tag}:units==model", SymBool(same_set(post["units"][a], want_units[a])), rz))
            if want_cats is not None:
                o.append(Obl(f"{tag}:categories==model", post["cats"] == sorted(want_cats), rz))
            if bounds is not None:
                o.append(Obl(f"{tag}:bounds==model", SymBool(z3.And(lift(post["bounds"][0]) == lift(bounds[0]), lift(post["bounds"][1]) == lift(bounds[1]))), rz))
            # public views agree with the state
            o.append(Obl(f"{tag}:num_units", c2.num_units == sum(len(v) for v in post["units"].values()), rz))
            o.append(Obl(f"{tag}:len==annotators", len(c2) == len(post["ann"]) and c2.num_annotators == len(post["ann"]), rz))
            o.append(Obl(f"{tag}:annotators-view", list(c2.annotators) == post["ann"], rz))
            o.append(Obl(f"{tag}:bool==has-units", bool(c2) == any(post["units"].values()), rz))
            o.append(Obl(f"{tag}:iteration-order", [(a, tup(u)) for a, u in c2] == [(a, t) for a in post["ann"] for t in post["units"][a]], rz))
            nu = sum(len(v) for v in post["units"].values())
            if nu and post["ann"]:
                o.append(Obl(f"{tag}:avg/max-units-per-annotator", c2.avg_num_annotations_per_annotator == nu / len(post["ann"])
                             and int(c2.max_num_annotations_per_annotator) == max(len(v) for v in post["units"].values()), rz))
                tot = 0
                for v in post["units"].values():
                    for (st_, en_, _l) in v:
                        tot = tot + (en_ - st_)
                o.append(Obl(f"{tag}:avg_length_unit", core.approx(c2.avg_length_unit, tot / nu, tot), rz))
            return o

        if op in ("add", "add_zero"):
            target = cfg.get("target", names[0])
            st, en = ctx.fresh("as"), ctx.fresh("ae")
            E["extra"].update(as_=st, ae=en, target=target)
            inputs.extend([st, en])
            valid = SymBool(en.e - st.e > lift(PREC))
            if op == "add_zero":
                ctx.assume(~valid)
                # for an annotator the continuum knows, and for a name it has never seen (a rejected add must not register it)
                for tgt in (target, "never-seen-before"):
                    try:
                        c.add(tgt, Segment(st, en), newlab)
                        obls.append(Obl("add_zero:zero-length-rejected", False, rz))
                    except ValueError:
                        obls.append(Obl("add_zero:zero-length-rejected", True, rz))
                    obls.append(Obl("add_zero:state-unchanged" + ("" if tgt == target else "(annotator not known before)"), SymBool(same_state(snapshot(c), pre)), rz))
                return obls
            ctx.assume(valid)
            for tgt in [target] + (["new"] if sum(sizes) <= 2 else []):
                c2 = c.copy() if False else None
            c.add(target, Segment(st, en), newlab)
            new = (st, en, newlab)
            want = dict(model_units)
            want[target] = model_units[target] + [new]
            cats = set(pre["cats"]) | ({newlab} if newlab is not None else set())
            lo = core.s_min(pre["bounds"][0], st)
            hi = core.s_max(pre["bounds"][1], en)
            obls += post_checks(c, want, pre["ann"], "add", cats, (lo, hi))
            post = snapshot(c)
            dup = member(new, model_units[target])
            obls.append(Obl("add:count(+1 unless duplicate)", SymBool(z3.If(dup, len(model_units[target]), len(model_units[target]) + 1) == len(post["units"][target])), rz))
            # adding under a new annotator
            c.add("zz_new", Segment(st, en), newlab)
            want2 = dict(want)
            want2["zz_new"] = [new]
            obls += post_checks(c, want2, sorted(pre["ann"] + ["zz_new"]), "add-new-annotator", cats, (lo, hi))
        elif op == "add_many":
            # add_timeline / add_annotation: one `add` per segment / per (segment, label) track
            s1, e1, s2, e2 = (ctx.fresh(n_) for n_ in ("ts1", "te1", "ts2", "te2"))
            ctx.solver.add(e1.e - s1.e > lift(PREC), e2.e - s2.e > lift(PREC))
            E["extra"].update(ts1=s1, te1=e1, ts2=s2, te2=e2)
            inputs.extend([s1, e1, s2, e2])
            target = names[0]
            c.add_timeline(target, [Segment(s1, e1), Segment(s2, e2)])

            class Tracks:
                def itertracks(self, yield_label=False):
                    for seg, lab in ((Segment(s1, e1), "c"), (Segment(s2, e2), None)):
                        yield (seg, "trk", lab) if yield_label else (seg, "trk")
            c.add_annotation("zz_new", Tracks())
            want = dict(model_units)
            want[target] = model_units[target] + [(s1, e1, None), (s2, e2, None)]
            want["zz_new"] = [(s1, e1, "c"), (s2, e2, None)]
            lo = core.s_min([pre["bounds"][0], s1, s2])
            hi = core.s_max([pre["bounds"][1], e1, e2])
            obls += post_checks(c, want, sorted(pre["ann"] + ["zz_new"]), "add_timeline/add_annotation", set(pre["cats"]) | {"c"}, (lo, hi))
        elif op == "add_annotator":
            c.add_annotator(names[0])
            obls.append(Obl("add_annotator:existing-is-noop", SymBool(same_state(snapshot(c), pre)), rz))
            c.add_annotator("aa")
            want = dict(model_units)
            want["aa"] = []
            obls += post_checks(c, want, sorted(pre["ann"] + ["aa"]), "add_annotator", pre["cats"], pre["bounds"])
        elif op == "remove_present":
            a = next((x for x in names if model_units[x]), None)
            if a is None:
                raise core.PathAbort()
            for idx in range(len(model_units[a])):
                c2 = c.copy()
                c2._categories = type(c._categories)(c._categories)
                c2.bound_inf, c2.bound_sup = c.bound_inf, c.bound_sup
                s_, e_, l_ = model_units[a][idx]
                try:
                    c2.remove(a, Unit(Segment(s_, e_), l_))       # a fresh, equal-by-value unit object
                except (KeyError, ValueError) as ex:
                    obls.append(Obl(f"remove:present-unit-is-removed({type(ex).__name__})", False, rz))
                    continue
                want = dict(model_units)
                want[a] = [u for k2, u in enumerate(model_units[a]) if k2 != idx]
                obls += post_checks(c2, want, pre["ann"], "remove", pre["cats"], pre["bounds"])
                obls.append(Obl("remove:count-1", len(c2._annotations[a]) == len(model_units[a]) - 1, rz))
        elif op == "remove_absent":
            a = names[0]
            st, en = ctx.fresh("rs"), ctx.fresh("re")
            E["extra"].update(rs=st, re=en)
            inputs.extend([st, en])
            ctx.assume(SymBool(en.e - st.e > lift(PREC)))
            x = (st, en, newlab)
            ctx.assume(SymBool(z3.Not(member(x, model_units[a]))))
            try:
                c.remove(a, Unit(Segment(st, en), newlab))
                obls.append(Obl("remove:absent-unit-raises", False, rz))
            except (KeyError, ValueError):
                obls.append(Obl("remove:absent-unit-raises", True, rz))
            obls.append(Obl("remove:absent-leaves-state-unchanged", SymBool(same_state(snapshot(c), pre)), rz))
        elif op in ("copy", "copy_flush", "reset_bounds", "views"):
            if op == "copy":
                c2 = c.copy()
                obls += post_checks(c2, model_units, pre["ann"], "copy", pre["cats"], pre["bounds"])
                obls.append(Obl("copy:equal-to-source", bool(c2 == c) and not bool(c2 != c), rz))
                obls.append(Obl("copy:source-unchanged", SymBool(same_state(snapshot(c), pre)), rz))
            elif op == "copy_flush":
                c2 = c.copy_flush()
                post = snapshot(c2)
                obls.append(Obl("copy_flush:no-annotators-no-units", post["ann"] == [] and c2.num_units == 0 and not bool(c2), rz))
                obls.append(Obl("copy_flush:bounds-kept", SymBool(z3.And(lift(post["bounds"][0]) == lift(pre["bounds"][0]), lift(post["bounds"][1]) == lift(pre["bounds"][1]))), rz))
                obls.append(Obl("copy_flush:source-unchanged", SymBool(same_state(snapshot(c), pre)), rz))
            elif op == "reset_bounds":
                c.reset_bounds()
                post = snapshot(c)
                allunits = [u for a in pre["ann"] for u in model_units[a]]
                if allunits:
                    lo = core.s_min([u[0] for u in allunits])
                    hi = core.s_max([u[1] for u in allunits])
                else:
                    lo, hi = 0, 0
                obls += post_checks(c, model_units, pre["ann"], "reset_bounds", pre["cats"], (lo, hi))
            else:
                for a in pre["ann"]:
                    got = c[a]
                    obls.append(Obl("getitem:annotator-units==model", [tup(u) for u in got] == pre["units"][a], rz))
                    obls.append(Obl("getitem:returns-a-copy", got is not c._annotations[a], rz))
                    for k in range(len(pre["units"][a])):
                        obls.append(Obl("getitem:(annotator,i)==model", tup(c[a, k]) == pre["units"][a][k], rz))
                    try:
                        c[a, len(pre["units"][a])]
                        obls.append(Obl("getitem:out-of-range-raises-IndexError", False, rz))
                    except IndexError:
                        obls.append(Obl("getitem:out-of-range-raises-IndexError", True, rz))
                    obls.append(Obl("iter_annotator==model", [tup(u) for u in c.iter_annotator(a)] == pre["units"][a]
                                    and [tup(u) for u in c.iterunits(a)] == pre["units"][a], rz))
                try:
                    c["nobody"]
                    obls.append(Obl("getitem:unknown-annotator-raises-KeyError", False, rz))
                except KeyError:
                    obls.append(Obl("getitem:unknown-annotator-raises-KeyError", True, rz))
                obls.append(Obl("categories-view", list(c.categories) == pre["cats"], rz))
                obls.append(Obl("bounds-view", SymBool(z3.And(lift(c.bounds[0]) == lift(pre["bounds"][0]), lift(c.bounds[1]) == lift(pre["bounds"][1]))), rz))
                obls += post_checks(c, model_units, pre["ann"], "views", pre["cats"], pre["bounds"])
        elif op in ("merge", "merge_inplace", "eq"):
            # second operand: shares annotator names[0], plus one of its own
            o_sizes, o_labels = (1, 1), ["a", None]
            other, oallu, oin = build_pre(ns, ctx, o_sizes, o_labels, prefix="o", slack=False, names=[names[0], "w"])
            other.add_annotator("v_no_units")          # an annotator without any unit must survive a merge
            inputs.extend(oin)
            E["extra"].update({f"o{k}": v for k, v in enumerate(oin)})
            opre = snapshot(other)
            if op == "eq":
                r1, r2 = bool(c == other), bool(other == c)
                same = z3.And(z3.BoolVal(pre["ann"] == opre["ann"]),
                              *[same_set(pre["units"][a], opre["units"].get(a, [])) if a in opre["units"] else z3.BoolVal(False) for a in pre["ann"]],
                              *[z3.BoolVal(len(pre["units"][a]) == len(opre["units"].get(a, []))) for a in pre["ann"]])
                obls.append(Obl("eq:symmetric", r1 == r2, rz))
                obls.append(Obl("eq==same-annotators-and-units", SymBool(same == z3.BoolVal(r1)), rz))
                obls.append(Obl("eq:reflexive", bool(c == c) and bool(other == other), rz))
                obls.append(Obl("ne==not-eq", bool(c != other) == (not r1), rz))
                obls.append(Obl("eq:not-equal-to-non-continuum", not bool(c == 3), rz))
                # transitivity on a third continuum equal to `other` by construction
                third = other.copy()
                obls.append(Obl("eq:transitive", (not (r1 and bool(other == third))) or bool(c == third), rz))
                # same units, different (unit-less) annotators: not equal
                c4, c5 = c.copy(), c.copy()
                c4.add_annotator("e1")
                c5.add_annotator("e2")
                obls.append(Obl("eq:annotators-matter-even-without-units", not bool(c4 == c5) and bool(c4 != c5), rz))
                c6 = c.copy()
                c6.add_annotator("e1")
                obls.append(Obl("eq:equal-copies-with-same-empty-annotator", bool(c4 == c6), rz))
                return obls
            want_ann = sorted(set(pre["ann"]) | set(opre["ann"]))
            want = {a: list(model_units.get(a, [])) + [u for u in opre["units"].get(a, [])] for a in want_ann}
            cats = set(pre["cats"]) | set(opre["cats"])
            allu2 = [u for a in opre["ann"] for u in opre["units"][a]]
            lo = core.s_min([pre["bounds"][0]] + [u[0] for u in allu2])
            hi = core.s_max([pre["bounds"][1]] + [u[1] for u in allu2])
            if op == "merge_inplace":
                r = c.merge(other, in_place=True)
                obls.append(Obl("merge_inplace:returns-None", r is None, rz))
                obls += post_checks(c, want, want_ann, "merge_inplace", cats, (lo, hi))
                obls.append(Obl("merge_inplace:operand-unchanged", SymBool(same_state(snapshot(other), opre)), rz))
                # history across two objects: what happens to the operand afterwards is not the merged continuum's business
                after = snapshot(c)
                other.add("w", Segment(core.const(7000), core.const(7001)), "a")
                obls.append(Obl("merge_inplace:a-later-add-on-the-operand-leaves-the-merged-continuum-as-it-was", SymBool(same_state(snapshot(c), after)), rz))
            else:
                m1 = c.merge(other)
                obls += post_checks(m1, want, want_ann, "merge", cats, (lo, hi))
                obls.append(Obl("merge:source-unchanged", SymBool(same_state(snapshot(c), pre)), rz))
                obls.append(Obl("merge:operand-unchanged", SymBool(same_state(snapshot(other), opre)), rz))
                m2 = c + other
                obls.append(Obl("merge:__add__==merge", SymBool(same_state(snapshot(m2), snapshot(m1))), rz))
                c.merge(other, in_place=True)
                obls.append(Obl("merge:in-place==out-of-place", SymBool(same_state(snapshot(c), snapshot(m1))), rz))
                after = snapshot(m1)
                other.add("w", Segment(core.const(7000), core.const(7001)), "a")
                obls.append(Obl("merge:a-later-add-on-the-operand-leaves-the-merged-continuum-as-it-was", SymBool(same_state(snapshot(m1), after)), rz))
        else:
            raise ValueError(op)
        return obls

    return h_order if kind.startswith("order") else h_step


# ---------------------------------------------------------------------------------------------
# real build: replay one model through the public API and compare with a plain-Python model
# ---------------------------------------------------------------------------------------------
def _key(u):
    s, e, lab = u
    return (s, e, (lab is not None, lab or ""))


def replay(case):
    import pygamma_agreement as pa
    from pyannote.core import Segment
    F = lambda x: float(Fraction(x))    # noqa: E731
    bad = []
    if case["kind"] == "order":
        us = [pa.Unit(Segment(F(s), F(e)), lab) for s, e, lab in case["units"]]
        ks = [_key((F(s), F(e), lab)) for s, e, lab in case["units"]]
        for i, a in enumerate(us):
            for j, b in enumerate(us):
                if (a < b) != (ks[i] < ks[j]):
                    bad.append(f"{a} < {b} is {a < b}, documented order says {ks[i] < ks[j]}")
                if (a == b) != (ks[i] == ks[j]):
                    bad.append(f"{a} == {b} is {a == b}")
                if (a <= b) != (ks[i] <= ks[j]) or (a > b) != (ks[i] > ks[j]) or (a >= b) != (ks[i] >= ks[j]):
                    bad.append(f"derived comparison wrong for {a}, {b}")
        return dict(reproduced=bool(bad), detail="; ".join(bad[:3]))
    # step
    op, newlab = case["op"], case["newlab"]
    names = case["annotators"]

    def mk():
        c = pa.Continuum()
        model = {a: set() for a in names}
        for a in names:
            c.add_annotator(a)
        for a, s, e, lab in case["pre"]:
            c.add(a, Segment(F(s), F(e)), lab)
            model[a].add((F(s), F(e), lab))
        # the pre-state's unused category and bounds slack, produced through the public API
        far = pa.Unit(Segment(-1.0e6, 1.0e6), "zz")
        c.add(names[0], far.segment, "zz")
        c.remove(names[0], far)
        return c, model

    def state(c):
        return {a: [(u.segment.start, u.segment.end, u.annotation) for u in c._annotations[a]] for a in c._annotations.keys()}

    def check(c, model, cats, tag):
        st = state(c)
        want = {a: sorted(v, key=_key) for a, v in sorted(model.items())}
        if st != want or list(st) != sorted(model):
            bad.append(f"{tag}: state {st} != model {want}")
        if cats is not None and list(c.categories) != sorted(cats):
            bad.append(f"{tag}: categories {list(c.categories)} != model {sorted(cats)}")
        for a, us in st.items():
            for s, e, lab in us:
                if not (c.bound_inf <= s and c.bound_sup >= e):
                    bad.append(f"{tag}: bounds {c.bounds} do not enclose {(s, e)}")
    ex = case.get("extra", {})
    try:
        c, model = mk()
        cats = {lab for _, _, _, lab in case["pre"] if lab is not None} | {"zz"}
        if op == "add":
            s, e = F(ex["as_"]), F(ex["ae"])
            c.add(ex["target"], Segment(s, e), newlab)
            model[ex["target"]].add((s, e, newlab))
            check(c, model, cats | ({newlab} if newlab else set()), "add")
        elif op == "add_zero":
            s, e = F(ex["as_"]), F(ex["ae"])
            for tgt in (ex["target"], "never-seen-before"):
                try:
                    c.add(tgt, Segment(s, e), newlab)
                    bad.append("zero-length segment accepted")
                except ValueError:
                    pass
                check(c, model, cats, "add_zero" + ("" if tgt == ex["target"] else " (annotator not known before)"))
        elif op == "add_many":
            from pyannote.core import Annotation, Timeline
            s1, e1, s2, e2 = (F(ex[k]) for k in ("ts1", "te1", "ts2", "te2"))
            c.add_timeline(names[0], Timeline([Segment(s1, e1), Segment(s2, e2)]))
            an = Annotation()
            an[Segment(s1, e1)] = "c"
            an[Segment(s2, e2), "t2"] = None
            c.add_annotation("zz_new", an)
            model[names[0]].update({(s1, e1, None), (s2, e2, None)})
            model["zz_new"] = {(s1, e1, "c"), (s2, e2, None)}
            check(c, model, cats | {"c"}, "add_timeline/add_annotation")
        elif op == "remove_present":
            for a in names:
                for u in sorted(model[a], key=_key):
                    c2, m2 = mk()
                    try:
                        c2.remove(a, pa.Unit(Segment(u[0], u[1]), u[2]))
                    except Exception as exn:     # noqa: BLE001
                        bad.append(f"remove of present unit {u} raised {exn!r}")
                        continue
                    m2[a].discard(u)
                    check(c2, m2, cats, "remove")
        elif op == "remove_absent":
            s, e = F(ex["rs"]), F(ex["re"])
            try:
                c.remove(names[0], pa.Unit(Segment(s, e), newlab))
                bad.append("removing an absent unit did not raise")
            except (KeyError, ValueError):
                pass
            check(c, model, cats, "remove_absent")
        elif op in ("copy", "merge", "merge_inplace", "eq", "copy_flush", "reset_bounds", "views", "add_annotator"):
            other = pa.Continuum()
            om = {names[0]: set(), "w": set(), "v_no_units": set()}
            other.add_annotator("v_no_units")
            vals = [F(ex[k]) for k in sorted(ex) if k.startswith("o")]
            if len(vals) >= 4:
                other.add(names[0], Segment(vals[0], vals[1]), "a")
                other.add("w", Segment(vals[2], vals[3]), None)
                om[names[0]].add((vals[0], vals[1], "a"))
                om["w"].add((vals[2], vals[3], None))
            if op == "copy":
                c2 = c.copy()
                check(c2, model, cats, "copy")
                if not (c2 == c):
                    bad.append("copy != source")
            elif op in ("merge", "merge_inplace"):
                mm = {a: set(v) for a, v in model.items()}
                for a, v in om.items():
                    mm.setdefault(a, set()).update(v)
                if op == "merge":
                    r = c.merge(other)
                    check(r, mm, cats | {"a"}, "merge")
                    check(c, model, cats, "merge-source")
                    r2 = c + other
                    check(r2, mm, cats | {"a"}, "__add__")
                    other.add("w", Segment(7000.0, 7001.0), "a")
                    check(r, mm, cats | {"a"}, "merge, after a later add on the operand")
                else:
                    c.merge(other, in_place=True)
                    check(c, mm, cats | {"a"}, "merge_inplace")
                    other.add("w", Segment(7000.0, 7001.0), "a")
                    check(c, mm, cats | {"a"}, "merge_inplace, after a later add on the operand")
            elif op == "eq":
                want = (sorted(model) == sorted(om)) and all(model[a] == om.get(a) for a in model)
                if (c == other) != want or (other == c) != want or (c != other) == want:
                    bad.append(f"== gives {c == other}/{other == c}, model {want}")
                c4, c5 = c.copy(), c.copy()
                c4.add_annotator("e1")
                c5.add_annotator("e2")
                if c4 == c5:
                    bad.append("continua with different unit-less annotators compare equal")
            elif op == "reset_bounds":
                c.reset_bounds()
                allu = [u for v in model.values() for u in v]
                wb = (min(u[0] for u in allu), max(u[1] for u in allu)) if allu else (0.0, 0.0)
                if tuple(c.bounds) != wb:
                    bad.append(f"reset_bounds gives {c.bounds}, extent is {wb}")
                check(c, model, cats, "reset_bounds")
            else:
                check(c, model, cats, op)
    except Exception as exn:     # noqa: BLE001
        import traceback
        return dict(reproduced=True, detail="real build raised " + repr(exn)[:200] + traceback.format_exc()[-300:])
    return dict(reproduced=bool(bad), detail="; ".join(bad[:3])[:500])
