"""C16 -- the shuffle sampler emits wrapped translations with separated pivots."""
from fractions import Fraction

import z3

from symx import core, stubs
from symx.core import Obl, SymNum, SymBool, lift, lb, mval
from . import common
from .common import ANN

META = dict(
    level="model_checking",
    technique="bounded symbolic execution (z3) of ShuffleContinuumSampler._remove_pivot_segment (Skolem-point obligations) and of sample_from_continuum under a nondeterministic RNG stub",
    design_ref="section 4 / C16",
    claim="(a) For any <= 3 disjoint segments, any pivot and dist > 0, and an arbitrary point x: x lies inside the returned segments only if it lay "
          "inside the given ones and farther than dist from the pivot, and every such interior point is kept. (b) For every reference continuum shape "
          "in the bound (symbolic coordinates, bounds enclosing the units), every ground-truth subset, both pivot types and ALL outcomes of the random "
          "draws: the sample is non-empty, has len(ground truth) annotators, each a one-for-one copy (same count, durations, labels) of one "
          "ground-truth annotator's units shifted by one pivot, wrapped by the continuum's length exactly when start + pivot exceeds the upper "
          "bound; pivots lie within the bounds, are pairwise >= avg_len/2 apart while the available list is non-empty, and integral in int mode.",
    trusted="z3; RNG stub contract (uniform in [a,b), choice returns an element of non-zero weight); real arithmetic; numpy's generators themselves",
    bounds=dict(quick="_remove_pivot_segment: 1..3 segments; sampler: references (1,1),(2,1),(1,1,1) with ground truth = all or 2 of 3, float and int pivots; references with a unit-less annotator: (1,0) with every annotator, (1,0,1) with an explicit ground truth naming the unit-less one",
                thorough="+ references (2,2),(2,1,1); 3 sampled annotators x 2 units"),
    outside="distribution of the pivots (uniformity); references with > 2 units per annotator; > 3 ground-truth annotators",
    stubs=["np.random.uniform/choice = fresh symbolic draws under their contract", "int() = truncation toward zero on symbolic reals"],
    assumptions=["reference units longer than SEGMENT_PRECISION", "reference bounds enclose its units (C13 invariant)"],
    cfg_budget_s=dict(quick=240, thorough=900),
)


COORD_BOUND = 64


def configs(tier):
    out = []
    for k in (1, 2, 3):
        out.append(dict(key=f"remove_pivot_segment,segments={k}", kind="rps", k=k, cost=5 ** k))
    refs = [((1, 1), None), ((2, 1), None), ((1, 1, 1), [0, 2])]
    out.append(dict(key="sampler,ref=(1, 0),gt=None,float_pivot", kind="sampler", sizes=[1, 0], gt=None, pivot="float_pivot", draws=9, cost=300))     # an annotator without units + ([((1, 1, 1), None)] if tier == "thorough" else [])
    # an EXPLICIT ground truth naming an annotator who has no unit: the sample still has one annotator per ground-truth annotator
    out.append(dict(key="sampler,ref=(1, 0, 1),gt=[0, 1],float_pivot", kind="sampler", sizes=[1, 0, 1], gt=[0, 1], pivot="float_pivot", draws=9, cost=300))
    if tier == "thorough":
        refs += [((2, 2), None), ((2, 1, 1), None), ((2, 1, 1), [0, 1]), ((2, 2, 1), [1, 2])]
    out.append(dict(key="sampler,re-initialised,ref=(1, 1, 1),gt=[0, 2],float_pivot", kind="sampler", sizes=[1, 1, 1], gt=[0, 2], pivot="float_pivot", reinit=True, cost=500))
    out.append(dict(key="sampler,ref=(2, 1),gt=None,float_pivot,ties-on-start-allowed", kind="sampler", sizes=[2, 1], gt=None, pivot="float_pivot", ties=True, cost=3000))
    for sizes, gt in refs:
        for piv in ("float_pivot", "int_pivot"):
            out.append(dict(key=f"sampler,ref={sizes},gt={gt},{piv}", kind="sampler", sizes=list(sizes), gt=gt, pivot=piv,
                            cost=30 * 4 ** sum(sizes)))
    return out


def harness(cfg, ns):
    sa, co, Segment = ns.sa, ns.co, ns.Segment
    if cfg["kind"] == "rps":
        k = cfg["k"]

        def h(ctx):
            segs = []
            prev_end = None
            inputs = []
            for i in range(k):
                s, e = ctx.fresh(f"s{i}_"), ctx.fresh(f"e{i}_")
                ctx.solver.add(s.e < e.e)
                if prev_end is not None:
                    ctx.solver.add(prev_end.e < s.e)          # disjoint (listed left to right; the function pops from the end)
                prev_end = e
                segs.append(Segment(s, e))
                inputs += [s, e]
            pivot, dist, x = ctx.fresh("pivot"), ctx.fresh("dist"), ctx.fresh("x")
            ctx.solver.add(dist.e > 0)
            ctx.model = None
            inputs += [pivot, dist, x]
            ctx.notes["inputs"] = inputs

            def rz(m):
                return dict(kind="rps", segments=[[common.frs(mval(m, g.start)), common.frs(mval(m, g.end))] for g in segs],
                            pivot=common.frs(mval(m, pivot)), dist=common.frs(mval(m, dist)), x=common.frs(mval(m, x)))
            ctx.notes["realize"] = rz
            obls = []
            for order in ("as-given", "reversed"):
                inp = list(segs) if order == "as-given" else list(reversed(segs))
                out = sa.ShuffleContinuumSampler._remove_pivot_segment(pivot, list(inp), dist)

                def inside(L):
                    return z3.Or(*[z3.And(lift(g.start) < x.e, x.e < lift(g.end)) for g in L]) if L else z3.BoolVal(False)
                excl = z3.And(x.e >= pivot.e - dist.e, x.e <= pivot.e + dist.e)
                strict_out = z3.Or(x.e < pivot.e - dist.e, x.e > pivot.e + dist.e)
                obls.append(Obl("no-point-added-or-left-in-the-excluded-zone", SymBool(z3.Implies(inside(out), z3.And(inside(segs), z3.Not(excl)))), rz))
                obls.append(Obl("allowed-interior-points-kept", SymBool(z3.Implies(z3.And(inside(segs), strict_out), inside(out))), rz))
                for g in out:
                    obls.append(Obl("returned-segments-not-reversed", SymBool(lift(g.start) <= lift(g.end)), rz))
            return obls
        return h

    sizes = tuple(cfg["sizes"])
    n = len(sizes)
    gt_idx = cfg["gt"]

    def h(ctx):
        c, info = common.build_continuum(ns, ctx, sizes, coords="sym", labels=[("x", "y")[k % 2] for k in range(sum(sizes))],
                                         ordered=("weak" if cfg.get("ties") else True))
        # bounds: any values enclosing the units (slack allowed), as the container invariant guarantees
        lo, hi = ctx.fresh("slack_lo", lo=0), ctx.fresh("slack_hi", lo=0)
        c.bound_inf = c.bound_inf - lo
        c.bound_sup = c.bound_sup + hi
        inputs = [v[kk] for v in info.values() for kk in ("start", "end")] + [lo, hi]
        if cfg["pivot"] == "int_pivot":
            # integer pivots make the queries mixed integer/real: coordinates are bounded (stated bound)
            for x in inputs:
                ctx.solver.add(x.e >= -COORD_BOUND, x.e <= COORD_BOUND)
        rng = stubs.RNG(ctx, max_draws=cfg.get("draws", 24))     # the retry-while-empty loop is cut by the draw budget
        # a zero-weight element is a zero-length segment, from which no uniform draw exists: the path dies there
        rng.assume_nonzero_weight = False
        orig_uniform = rng.uniform

        def uniform(a=0.0, b=1.0, size=None):
            v = orig_uniform(a, b)
            if not IN_RFS[0]:
                PIVOTS.append(v)                  # fallback pivot drawn directly from the bounds
                AVAILABLE_NONEMPTY.append(False)
                RAW.append(v)
            return v
        rng.uniform = uniform
        RNGREF[0] = rng
        ns.np.random = rng
        gt = None if gt_idx is None else [ANN[i] for i in gt_idx]
        gt_names = [ANN[i] for i in (range(n) if gt_idx is None else gt_idx)]
        s = sa.ShuffleContinuumSampler(pivot_type=cfg["pivot"])
        if cfg.get("reinit"):
            s.init_sampling(c, None)          # an earlier initialisation on the same continuum object, all annotators
        s.init_sampling(c, gt)
        binf, bsup = c.bound_inf, c.bound_sup

        def rz(m):
            draws = []
            for rec in rng.log:
                if rec[0] == "uniform":
                    draws.append(["uniform", common.frs(mval(m, rec[3]))])
                elif rec[0] == "choice":
                    draws.append(["choice", rec[3]])
            return dict(kind="sampler", reinit=bool(cfg.get("reinit")), sizes=list(sizes), gt=gt, pivot=cfg["pivot"], draws=draws,
                        units=[[ANN[a], common.frs(mval(m, v["start"])), common.frs(mval(m, v["end"])), v["label"]] for (a, j), v in sorted(info.items())],
                        slack=[common.frs(mval(m, lo)), common.frs(mval(m, hi))])
        ctx.notes["realize"] = rz
        ctx.notes["inputs"] = inputs
        # the retry loop `while not new_continuum` only repeats when every chosen annotator has no unit
        smp = s.sample_from_continuum
        ctx.notes["inputs"] = inputs + [r[3] for r in rng.log if r[0] == "uniform"]
        obls = [Obl("sample-non-empty", smp.num_units >= 1, rz),
                Obl("as-many-annotators-as-ground-truth", len(smp.annotators) == len(gt_names), rz),
                Obl("reference-bounds-kept", SymBool(z3.And(lift(smp.bound_inf) <= lift(binf), lift(smp.bound_sup) >= lift(bsup))), rz)]
        # reconstruct (pivot, chosen annotator) per sampled annotator from the RNG log, last round only
        unis = [r for r in rng.log if r[0] == "uniform"]
        chs = [r for r in rng.log if r[0] == "choice"]
        ann_choices = [r for r in chs if all(isinstance(x, str) for x in r[1])]
        rounds = len(ann_choices) // len(gt_names)
        last = ann_choices[(rounds - 1) * len(gt_names):]
        obls.append(Obl("one-annotator-choice-per-sampled-annotator", len(last) == len(gt_names) and len(ann_choices) % len(gt_names) == 0, rz))
        L = bsup - binf
        avg = c.avg_length_unit
        names = sorted(smp.annotators)
        piv_terms = PIVOTS[-len(gt_names):] if len(PIVOTS) >= len(gt_names) else []
        for idx, nm in enumerate([f"Sampled_annotation {i}" for i in range(len(gt_names))]):
            obls.append(Obl("sampled-annotator-names", nm in smp._annotations, rz))
            if nm not in smp._annotations or idx >= len(last) or idx >= len(piv_terms):
                continue
            src_name = last[idx][1][last[idx][3]]
            obls.append(Obl("source-is-a-ground-truth-annotator", src_name in gt_names, rz))
            src = list(c._annotations[src_name])
            img = list(smp._annotations[nm])
            p = piv_terms[idx]
            obls.append(Obl("same-number-of-units", len(img) == len(src), rz))
            obls.append(Obl("pivot-within-bounds", SymBool(z3.And(lift(p) >= lift(binf), lift(p) <= lift(bsup))), rz))
            if cfg["pivot"] == "int_pivot" and AVAILABLE_NONEMPTY[-len(gt_names):][idx]:
                obls.append(Obl("pivot-is-a-whole-number", SymBool(z3.IsInt(lift(p))) if isinstance(p, SymNum) else float(p).is_integer(), rz))
            for u in src:
                wrap = lift(u.segment.start) + lift(p) > lift(bsup)
                shift = z3.If(wrap, lift(p) - lift(L), lift(p))
                ex = z3.Or(*[z3.And(lift(v.segment.start) == lift(u.segment.start) + shift,
                                    lift(v.segment.end) == lift(u.segment.end) + shift,
                                    z3.BoolVal(v.annotation == u.annotation)) for v in img]) if img else z3.BoolVal(False)
                obls.append(Obl("each-unit-shifted-by-the-pivot(wrapped-iff-beyond-upper-bound)", SymBool(ex), rz))
        # separation: while the available list was non-empty when the pivot was drawn
        for i in range(len(piv_terms)):
            for j in range(i):
                if AVAILABLE_NONEMPTY[-len(gt_names):][i] and AVAILABLE_NONEMPTY[-len(gt_names):][j]:
                    d = lift(piv_terms[i]) - lift(piv_terms[j])
                    known = None
                    if cfg["pivot"] == "int_pivot":
                        # known finding: the uniform draw respected the zone excluded around the earlier pivot, truncation
                        # to an integer then moved the pivot back into it
                        raw = RAW[-len(gt_names):][i]
                        dr = lift(raw) - lift(piv_terms[j])
                        known = [("C16-int-pivot-truncation", z3.And(z3.Or(dr >= lift(avg) / 2, -dr >= lift(avg) / 2), lift(raw) != lift(piv_terms[i])))]
                    obls.append(Obl("pivots-at-least-half-average-length-apart", SymBool(z3.Or(d >= lift(avg) / 2, -d >= lift(avg) / 2)), rz, known=known))
        return obls

    # spy on the pivot actually used: wrap _random_from_segments / the fallback uniform
    PIVOTS = []
    AVAILABLE_NONEMPTY = []
    IN_RFS = [0]
    RAW = []
    RNGREF = [None]
    orig_rfs = sa.ShuffleContinuumSampler._random_from_segments

    def wrapped(ctx):
        PIVOTS.clear()
        AVAILABLE_NONEMPTY.clear()
        RAW.clear()

        def spy(self, segments):
            IN_RFS[0] += 1
            try:
                p = orig_rfs(self, segments)
            finally:
                IN_RFS[0] -= 1
            PIVOTS.append(p)
            AVAILABLE_NONEMPTY.append(True)
            raws = [r[3] for r in RNGREF[0].log if r[0] == "uniform"]
            RAW.append(raws[-1] if raws else p)
            return p
        sa.ShuffleContinuumSampler._random_from_segments = spy
        try:
            return h(ctx)
        finally:
            sa.ShuffleContinuumSampler._random_from_segments = orig_rfs
    return wrapped


# ---------------------------------------------------------------------------------------------
def real_checks(tier):
    """concrete cross-checks of what real arithmetic cannot see: rounding of start + pivot / end + pivot.
    (An IEEE-mode solver configuration for this loop was built and withdrawn: z3 finds violations in seconds but cannot close the
    unsat side - `(e + p) - (s + p) > 1e-6` from `e - s > 2e-6`, |values| <= 64, is still `unknown` after 600 s of bit-blasting.)"""
    return [dict(kind="shift-rounding", variant="ordinary", name="shuffle samples of references with ordinary durations at large offsets stay valid after rounding"),
            dict(kind="shift-rounding", variant="near-precision", name="shuffle samples of a reference holding a unit within rounding distance of the precision")]


def _shift_rounding(variant):
    import numpy as np
    import pygamma_agreement as pa
    import pyannote.core.segment as pseg
    from pyannote.core import Segment
    bad = []
    if variant == "near-precision":
        refs = [[("a", 0.0, 1.0000000001e-6, "x"), ("a", 10.0, 20.0, "y"), ("b", 1.0, 1.0000010000001, "x"), ("b", 12.0, 30.0, "y")]]
    else:
        refs = [[("a", 1e6 + 0.001 * k, 1e6 + 0.001 * k + 0.0015, "x") for k in range(0, 40, 3)] + [("b", 1e6 + 0.01 * k, 1e6 + 0.01 * k + 0.002, "y") for k in range(5)],
                [("a", 1.7e9 + 3.0 * k, 1.7e9 + 3.0 * k + 1e-3, "x") for k in range(6)] + [("b", 1.7e9 + 2.5 * k, 1.7e9 + 2.5 * k + 0.5, "y") for k in range(6)],
                [("a", 0.1 * k, 0.1 * k + 2e-6, "x") for k in range(8)] + [("b", 0.1 * k + 0.05, 0.1 * k + 0.05 + 5e-6, "y") for k in range(8)]]
    for r, ref in enumerate(refs):
        c = pa.Continuum()
        for a, s_, e_, lab in ref:
            c.add(a, Segment(s_, e_), lab)
        for pt in ("float_pivot", "int_pivot"):
            smp = pa.ShuffleContinuumSampler(pivot_type=pt)
            smp.init_sampling(c, None)
            for seed in range(25):
                np.random.seed(1600 + seed)
                try:
                    out = smp.sample_from_continuum
                except Exception as ex:     # noqa: BLE001
                    bad.append(f"reference {r} ({pt}, seed {1600 + seed}): raised {ex!r}"[:200])
                    break
                # each sampled annotator is a shifted copy of one reference annotator: valid units, a unit count that the reference has
                ref_counts = {len(c._annotations[x]) for x in c.annotators}
                counts = [len(out._annotations[x]) for x in out.annotators]
                if any(not (u.segment.end - u.segment.start > pseg.SEGMENT_PRECISION) for _, u in out) or len(counts) != len(list(c.annotators)) \
                        or any(k not in ref_counts for k in counts):
                    bad.append(f"reference {r} ({pt}, seed {1600 + seed}): invalid sample (units per sampled annotator {counts}, reference has {sorted(ref_counts)})")
                    break
    return dict(reproduced=bool(bad), detail="; ".join(bad[:3]))


def replay(case):
    if case.get("kind") == "shift-rounding":
        return _shift_rounding(case["variant"])
    import numpy as np
    import pygamma_agreement as pa
    from pygamma_agreement.sampler import ShuffleContinuumSampler
    from pyannote.core import Segment
    from unittest import mock
    F = lambda x: float(Fraction(x))     # noqa: E731
    if case["kind"] == "rps":
        segs = [Segment(F(a), F(b)) for a, b in case["segments"]]
        pivot, dist, x = F(case["pivot"]), F(case["dist"]), F(case["x"])
        bad = []
        for inp in (list(segs), list(reversed(segs))):
            out = ShuffleContinuumSampler._remove_pivot_segment(pivot, list(inp), dist)
            # scan a grid of points including the model's x
            pts = [x] + [g.start + (g.end - g.start) * t for g in segs + out for t in (0.25, 0.5, 0.75)] + \
                  [pivot + d for d in (-2 * dist, -dist / 2, 0.0, dist / 2, 2 * dist)]
            for q in pts:
                ins = any(g.start < q < g.end for g in segs)
                outs = any(g.start < q < g.end for g in out)
                zone = pivot - dist <= q <= pivot + dist
                if outs and (not ins or zone):
                    bad.append(f"point {q} is inside the result {out} but was {'not available' if not ins else 'within dist of the pivot'}")
                if ins and not zone and not outs:
                    bad.append(f"allowed point {q} lost: {out}")
            if any(g.start > g.end for g in out):
                bad.append(f"reversed segment in {out}")
        return dict(reproduced=bool(bad), detail="; ".join(bad[:2])[:400])
    # sampler: mock numpy.random with the model's draws
    c = common.real_continuum(dict(units=case["units"], annotators=ANN[:len(case["sizes"])]))
    lo, hi = (F(v) for v in case["slack"])
    c.bound_inf -= lo
    c.bound_sup += hi
    draws = list(case["draws"])

    in_rfs = [0]
    from_avail = []

    def uniform(a=0.0, b=1.0, size=None):
        while draws and draws[0][0] != "uniform":
            draws.pop(0)
        if not draws:
            raise RuntimeError("replay ran out of recorded uniform draws")
        v = F(draws.pop(0)[1])
        if not in_rfs[0]:
            used.append(v)
            from_avail.append(False)
        return v

    def choice(seq, size=None, replace=True, p=None):
        if not draws or draws[0][0] != "choice":
            raise RuntimeError("replay expected a choice draw")
        return list(seq)[draws.pop(0)[1]]
    s = ShuffleContinuumSampler(pivot_type=case["pivot"])
    if case.get("reinit"):
        s.init_sampling(c, None)
    s.init_sampling(c, case["gt"])
    used = []
    orig = ShuffleContinuumSampler._random_from_segments

    def spy(self, segments):
        in_rfs[0] += 1
        try:
            p = orig(self, segments)
        finally:
            in_rfs[0] -= 1
        used.append(p)
        from_avail.append(True)
        return p
    bad = []
    try:
        with mock.patch("numpy.random.uniform", uniform), mock.patch("numpy.random.choice", choice), \
                mock.patch.object(ShuffleContinuumSampler, "_random_from_segments", spy):
            smp = s.sample_from_continuum
    except RuntimeError as ex:
        return dict(reproduced=None, detail=str(ex))
    except Exception as ex:     # noqa: BLE001
        return dict(reproduced=True, detail="sampler raised " + repr(ex)[:300])
    gt = case["gt"] or list(c.annotators)
    if smp.num_units < 1:
        bad.append("empty sample")
    if len(smp.annotators) != len(gt):
        bad.append(f"{len(smp.annotators)} annotators for {len(gt)} ground-truth annotators")
    avg = c.avg_length_unit
    k = len(gt)
    piv = used[-k:]
    fa = from_avail[-k:]
    for i in range(len(piv)):
        if not (c.bound_inf - 1e-9 <= piv[i] <= c.bound_sup + 1e-9):
            bad.append(f"pivot {piv[i]} outside bounds {c.bounds}")
        if case["pivot"] == "int_pivot" and fa[i] and float(piv[i]) != int(piv[i]):
            bad.append(f"pivot {piv[i]} not a whole number")
        for j in range(i):
            if fa[i] and fa[j] and abs(piv[i] - piv[j]) < avg / 2 - 1e-9:
                bad.append(f"pivots {piv[j]} and {piv[i]} closer than avg_len/2 = {avg / 2}")
    L = c.bound_sup - c.bound_inf
    for i, nm in enumerate(sorted(smp.annotators)):
        img = [(u.segment.start, u.segment.end, u.annotation) for u in smp._annotations[nm]]
        ok = False
        for src in gt:
            su = list(c._annotations[src])
            if len(su) != len(img) or i >= len(piv):
                continue
            want = []
            for u in su:
                sh = piv[i] - L if u.segment.start + piv[i] > c.bound_sup else piv[i]
                want.append((u.segment.start + sh, u.segment.end + sh, u.annotation))
            if all(any(abs(w[0] - g[0]) < 1e-6 and abs(w[1] - g[1]) < 1e-6 and w[2] == g[2] for g in img) for w in want):
                ok = True
        if not ok:
            bad.append(f"{nm} = {img} is not a pivot-shifted copy of a ground-truth annotator (pivots {piv})")
    return dict(reproduced=bool(bad), detail="; ".join(bad[:3])[:500])
