"""C02 -- the best alignment has minimal disorder among all partitions; pruning never changes the minimum."""
from symx import core
from symx.core import Obl
from . import common, pipeline

META = dict(
    level="model_checking",
    technique="bounded symbolic execution (z3) of get_best_alignment against an independent all-partitions oracle, MIP optimality by contract",
    design_ref="section 4 / C02",
    claim="For every configuration in the bound and all real-valued inputs inside it, under the MIP contract (the answer is optimal for the problem "
          "the repository built): the returned disorder is <= the definitional disorder of EVERY partition of the units into unitary alignments "
          "(oracle enumerates all partitions from ALL tuples, ignoring the pruning) and equals the definitional disorder of the returned one. "
          "Hence pruning at n*delta_empty never changes the minimum, including values exactly on the threshold. Nothing is claimed outside the bound.",
    trusted="z3; MIP stub contract (feasible and optimal among the 0/1 points of the captured constraints); independent oracle in harness/common.py; "
            "real arithmetic instead of float32",
    bounds=dict(
        quick="abstract pair values on sizes (1,1),(2,1),(0,2),(2,2),(3,1),(1,1,1),(2,1,0) x back-ends {CBC, GLPK}; positional (symbolic coordinates) on "
              "(1,1),(2,1); combined (alpha, beta, delta_empty symbolic; concrete coordinates) on (2,1),(2,2); the same over a categorical component that declares "
              "labels a..d on continua using b and d",
        thorough="+ abstract (3,2),(3,3),(2,1,1),(2,2,1),(1,1,1,1); combined with symbolic coordinates (1,1),(2,1); positional (2,2)"),
    outside="optimum for continua beyond the bound (the quantifier's random 3x9 / 4x5 / 5x3 sampling is not part of this technique); float32 rounding; "
            "optimality of CBC/GLPK themselves",
    stubs=["cvxpy/CBC/GLPK = contract stub", "numba.njit = identity", "np float arrays = object arrays of z3 reals"],
    assumptions=["pair dissimilarities symmetric and >= 0", "delta_empty > 0", "alpha, beta >= 0"],
    cfg_budget_s=dict(quick=200, thorough=900),
    replay_alarm_s=300,
)


def configs(tier):
    out = []
    for s in [(1, 1), (2, 1), (0, 2), (2, 2), (3, 1), (1, 1, 1), (2, 1, 0)]:
        for b in ["cbc", "glpk_import"]:
            out.append(dict(key=f"abstract,sizes={s},{b}", sizes=list(s), dissim="abstract", backend=b,
                            cost=len(common.exact_covers(s)) * len(common.all_tuples(s))))
    for s in [(1, 1), (2, 1)]:
        out.append(dict(key=f"positional,sizes={s}", sizes=list(s), dissim="positional", labels="none", backend="cbc", cost=50))
    for s in [(2, 1), (2, 2)]:
        out.append(dict(key=f"combined-fixedcoords,sizes={s}", sizes=list(s), dissim="combined", labels="xy", coords="fixed", backend="cbc", cost=80))
    # a categorical component that declares more categories (a..d) than the continuum uses (b, d)
    for s in [(2, 1), (2, 2)]:
        out.append(dict(key=f"combined-declared-superset-fixedcoords,sizes={s}", sizes=list(s), dissim="combined-declared", labels="declared-bd", coords="fixed",
                        backend="cbc", cost=80))
    # units of one annotator may start together (ties on position: the container orders them by end, then label)
    out.append(dict(key="positional,sizes=(2, 1),labels=mixed,ties-on-start-allowed", sizes=[2, 1], dissim="positional", labels="mixed", backend="cbc", ties=True, cost=400))
    # histories on one continuum object: an earlier computation, then an edit through the public API, then the alignment under test
    for s in [(2, 1), (1, 1, 1)]:
        for warm in ("remove", "add-remove", "other-continuum"):
            out.append(dict(key=f"best,after-earlier-computation-and-{warm},sizes={s}", sizes=list(s), dissim="abstract", backend="cbc", mode="best", warm=warm,
                            cost=len(common.all_tuples(s)) ** 2))
    if tier == "thorough":
        for s in [(3, 2), (3, 3), (2, 1, 1), (2, 2, 1), (1, 1, 1, 1)]:
            for b in ["cbc", "glpk_import"][:(2 if sum(s) <= 5 else 1)]:
                out.append(dict(key=f"abstract,sizes={s},{b}", sizes=list(s), dissim="abstract", backend=b,
                                cost=len(common.exact_covers(s)) * len(common.all_tuples(s))))
        for s in [(1, 1), (2, 1)]:
            out.append(dict(key=f"combined,sizes={s}", sizes=list(s), dissim="combined", labels="xy", backend="cbc", cost=3000))
        out.append(dict(key="positional,sizes=(2, 2)", sizes=[2, 2], dissim="positional", labels="none", backend="cbc", cost=3000))
        out.append(dict(key="combined-fixedcoords,sizes=(3, 2)", sizes=[3, 2], dissim="combined", labels="xy", coords="fixed", backend="cbc", cost=500))
    return out


def optimal_obls(E, A, tuples, covers, rz, what="best"):
    sizes, de, pair = E["sizes"], E["de"], E["pair"]
    obls = []
    costs = [common.alignment_cost(cov, sizes, de, pair) for cov in covers]
    d = A.disorder
    for k, cst in enumerate(costs):
        # tolerance 1e-9 (relative): the code divides by the *float* mean number of units per annotator
        obls.append(Obl(f"{what}-disorder<=every-{'cover' if what == 'soft' else 'partition'}[{k}]", core.approx_le(d, cst, cst), rz))
    if tuples is not None:
        want = common.alignment_cost(tuples, sizes, de, pair)
        obls.append(Obl(f"{what}-disorder==definition-on-returned-units", core.approx(d, want, want), rz))
        for ua, t in zip(A.unitary_alignments, tuples):
            obls.append(Obl("carried-unitary-disorder==definition", core.eq(ua.disorder, common.tuple_cost(t, sizes, de, pair)), rz))
    return obls


def harness(cfg, ns):
    covers = common.exact_covers(tuple(cfg["sizes"]))

    def h(ctx):
        E = pipeline.setup(ns, ctx, cfg)
        rz = ctx.notes["realize"]
        A = pipeline.run_alignment(ns, E, "best")
        sobls, tuples = pipeline.structure_obls(E, A, False, rz)
        obls = optimal_obls(E, A, tuples, covers, rz)
        obls.append(Obl("returned-alignment-well-formed", tuples is not None, rz))
        return obls
    return h


def real_checks(tier):
    """concrete cross-check beyond the solver bound: medium continua (3x5, 4x4, 2x9, 5x3 units, an annotator without units, overlapping /
    nested / unlabelled units) on the real build against an independent MILP (scipy / HiGHS) over ALL tuples, both back-ends"""
    import os
    return [dict(kind="medium", name="best alignment of medium continua == independent MILP optimum over all tuples (both back-ends)",
                 seed=int(os.environ.get("VERIF_SEED", "0") or 0))]


def replay(case):
    if "mip-variable-declared-boolean" in str(case.get("_obligation", "")):
        # a relaxed variable shows where the LP relaxation is fractional: odd cycles among three annotators (both modes, both back-ends)
        r = pipeline.real_medium_check(dict(cases=pipeline.odd_cycle_cases()), mode="soft", backends=("cbc", "glpk_import"))
        if not r.get("reproduced"):
            r = pipeline.real_medium_check(dict(cases=pipeline.odd_cycle_cases() + pipeline.dense_cases(40)), mode="best", backends=("cbc", "glpk_import"))
        return r
    if case.get("kind") == "medium":
        return pipeline.real_medium_check(case, mode="best", backends=("cbc", "glpk_import"))
    return pipeline.replay_pipeline(case)


# translator validation (shared): the repository's own test inputs through both builds
tv_cases, tv_real, tv_sym, tv_compare_hook = pipeline.tv_cases, pipeline.tv_real, pipeline.tv_sym, pipeline.tv_compare_hook
