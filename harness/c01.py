"""C01 -- the best alignment is a partition of the continuum's units (and the computation returns)."""
from symx.core import Obl, mval
from . import common, pipeline

META = dict(
    level="model_checking",
    technique="bounded symbolic execution (z3, path forking) of get_best_alignment end to end, MIP back-end replaced by its contract",
    design_ref="section 4 / C01",
    claim="For every configuration in the bound and, inside it, every real-valued input (pair dissimilarities >= 0 or unit coordinates, "
          "delta_empty > 0, alpha, beta >= 0), every accept/reject pattern of the pruning filter and every 0/1 answer a correct MIP solver may "
          "give: get_best_alignment returns without exception, each unitary alignment has exactly one slot per annotator, at least one real "
          "unit and only the continuum's own units, and every (annotator, unit) occurs in exactly one of them; and, in IEEE binary32/binary64 "
          "arithmetic with numba's width rules (candidate kernel only, 3-4 annotators with one unit each, every binary32 delta_empty in (0, 1024]): "
          "the tuple that leaves one unit alone is always a candidate, so the integer program always has a feasible point. Nothing is claimed outside the bound.",
    trusted="z3; the MIP stub's contract (a 0/1 point satisfying the captured constraints whenever one exists); symbolic build validated against "
            "the real build on concrete inputs every run; real arithmetic instead of float32 everywhere except the IEEE-mode kernel configuration "
            "(z3 FloatingPoint theory, bit-blasted; width rules validated against the real numba kernel in C07's translator validation)",
    bounds=dict(
        quick="abstract pair values on sizes (1,1),(2,1),(0,2),(2,2),(3,1),(1,1,1),(2,1,0) x back-ends {CBC, GLPK via ImportError, GLPK via SolverError}; "
              "positional dissimilarity with symbolic coordinates on (1,1),(2,1) x labels {none, mixed, all}; combined dissimilarity (alpha, beta, "
              "delta_empty symbolic, symbolic coordinates) on (1,1) x labels {none, mixed, xy}; IEEE-mode candidate kernel on (1,1,1) with pairs far apart",
        thorough="+ abstract (3,2),(3,3),(2,1,1),(2,2,1),(1,1,1,1),(0,1,2),(1,1,1,1,1) semi; positional (2,2),(1,1,1); combined (2,1); IEEE-mode kernel on (1,1,1,1)"),
    outside="correctness of CBC/GLPK themselves; > 4 fully symbolic annotators; > 3 units per annotator; float32 rounding outside the candidate kernel's pruning test (pair values, the MIP objective); "
            "unlabelled units with matrix-based categorical dissimilarities (no value is defined for them)",
    stubs=["cvxpy/CBC/GLPK = contract stub (feasible + optimal 0/1 point of the captured problem)", "import cylp = succeeds / ImportError (configuration)",
           "numba.njit = identity", "np float arrays = object arrays of z3 reals"],
    assumptions=["pair dissimilarities symmetric and >= 0", "delta_empty > 0", "segments longer than pyannote's SEGMENT_PRECISION",
                 "units of one annotator listed by increasing start (the container sorts them)"],
    cfg_budget_s=dict(quick=200, thorough=900),
    replay_alarm_s=300,
)

BACKENDS = ["cbc", "glpk_import", "glpk_solvererror"]


def configs(tier):
    out = []
    q = [(1, 1), (2, 1), (0, 2), (2, 2), (3, 1), (1, 1, 1), (2, 1, 0)]
    for s in q:
        for b in BACKENDS:
            out.append(dict(key=f"abstract,sizes={s},{b}", sizes=list(s), dissim="abstract", backend=b,
                            cost=len(common.exact_covers(s)) * len(common.all_tuples(s))))
    for s in [(1, 1), (2, 1)]:
        for lab in ["none", "mixed", "same", "empty-string"]:
            out.append(dict(key=f"positional,sizes={s},labels={lab}", sizes=list(s), dissim="positional", labels=lab, backend="cbc", cost=50))
    for lab in ["none", "mixed", "xy", "empty-string"]:
        out.append(dict(key=f"combined,sizes=(1, 1),labels={lab}", sizes=[1, 1], dissim="combined", labels=lab, backend="cbc", cost=60))
    # units of one annotator may start together (ties on position: the container orders them by end, then label)
    out.append(dict(key="positional,sizes=(2, 1),labels=mixed,ties-on-start-allowed", sizes=[2, 1], dissim="positional", labels="mixed", backend="cbc", ties=True, cost=400))
    # histories on one continuum object: an earlier computation, then an edit through the public API, then the alignment under test
    for s in [(2, 1), (1, 1, 1)]:
        for warm in ("remove", "add-remove"):
            out.append(dict(key=f"best,after-earlier-computation-and-{warm},sizes={s}", sizes=list(s), dissim="abstract", backend="cbc", mode="best", warm=warm,
                            cost=len(common.all_tuples(s)) ** 2))
    # whatever continuum the public API lets one build: zero-length units are offered to add() (and must be refused) before the alignment
    out.append(dict(key="positional,sizes=(1, 1),labels=none,zero-length-units-offered", sizes=[1, 1], dissim="positional", labels="none", backend="cbc", offer_zero=True, cost=60))
    # IEEE mode (symx.fp; harness shared with C07): after rounding too, the tuple leaving one unit alone is always a candidate, i.e. the
    # integer program handed to the solver always has a feasible point (pairs concrete and far apart: delta_empty is the symbol)
    for s in [(1, 1, 1)] + ([(1, 1, 1, 1)] if tier == "thorough" else []):
        out.append(dict(key=f"ieee-kernel,sizes={s},pairs-far-apart", sizes=list(s), ieee=True, far=True, chunk=None, timeout_ms=120000, cost=300))
    if tier == "thorough":
        for s in [(3, 2), (3, 3), (2, 1, 1), (2, 2, 1), (1, 1, 1, 1), (0, 1, 2)]:
            for b in (BACKENDS if sum(s) <= 5 else ["cbc", "glpk_import"]):
                out.append(dict(key=f"abstract,sizes={s},{b}", sizes=list(s), dissim="abstract", backend=b,
                                cost=len(common.exact_covers(s)) * len(common.all_tuples(s))))
        for s in [(2, 2), (1, 1, 1)]:
            for lab in ["none", "mixed"]:
                out.append(dict(key=f"positional,sizes={s},labels={lab}", sizes=list(s), dissim="positional", labels=lab, backend="glpk_import", cost=3000))
        for lab in ["none", "xy"]:
            out.append(dict(key=f"combined,sizes=(2, 1),labels={lab}", sizes=[2, 1], dissim="combined", labels=lab, backend="cbc", cost=3000))
    return out


def harness(cfg, ns):
    if cfg.get("ieee"):
        from . import c07
        return c07.harness(cfg, ns)

    def h(ctx):
        E = pipeline.setup(ns, ctx, cfg)
        rz = ctx.notes["realize"]
        if cfg.get("offer_zero"):
            from symx import core as _core
            z0, z1 = ctx.fresh("z0"), ctx.fresh("z1")
            rz0 = rz

            def rz(m, _rz0=rz0):
                cse = _rz0(m)
                cse["offer_zero"] = [common.frs(mval(m, z0)), common.frs(mval(m, z1))]
                return cse
            ctx.notes["realize"] = rz
            for a, z in ((0, z0), (1, z1)):
                try:
                    E["c"].add(common.ANN[a], ns.Segment(z, z), None)      # start == end: not a unit
                except ValueError:
                    pass
            _core.DIV_CHECK[0] = True
            try:
                A = pipeline.run_alignment(ns, E, "best")
            finally:
                _core.DIV_CHECK[0] = False
        else:
            A = pipeline.run_alignment(ns, E, "best")
        obls, _ = pipeline.structure_obls(E, A, False, rz)
        probs = E["state"].problems
        want = "CBC" if cfg["backend"] == "cbc" else "GLPK_MI"
        obls.append(Obl("solved-by-configured-backend", bool(probs) and probs[-1]["solver"] == want, rz))
        return obls
    return h


def real_checks(tier):
    """concrete cross-check beyond the solver bound: medium continua (3x5, 4x4, 2x9, 5x3 units, an annotator without units, overlapping /
    nested / unlabelled units) on the real build against an independent MILP (scipy / HiGHS) over ALL tuples, both back-ends"""
    import os
    return [dict(kind="crowded", name="best alignment of a crowded 5x8 continuum (59049 candidates, three buffer growths) is returned and is a partition"),
            dict(kind="medium", name="best alignment of medium continua == independent MILP optimum over all tuples (both back-ends)",
                 seed=int(os.environ.get("VERIF_SEED", "0") or 0))]


def _crowded():
    """5 annotators x 8 heavily overlapping units + one isolated unit: 59049 candidate tuples (the candidate buffer grows three times), all of
    them kept by the pruning; the best alignment must still come back and be a partition"""
    import pygamma_agreement as pa
    from pyannote.core import Segment
    c = pa.Continuum()
    for a in range(5):
        for j in range(8):
            c.add(f"annotator_{a}", Segment(0.3 * j + 0.05 * a, 0.3 * j + 0.05 * a + 6.0), "xyz"[(a + j) % 3])
    c.add("annotator_0", Segment(500.0, 503.0), "x")
    D = pa.CombinedCategoricalDissimilarity(alpha=1, beta=1, delta_empty=1)
    try:
        A = c.get_best_alignment(D)
    except Exception as ex:     # noqa: BLE001
        return dict(reproduced=True, detail="crowded 5 x 8 continuum (59049 candidates): get_best_alignment raised " + repr(ex)[:200])
    bad = pipeline.real_check_alignment(None, c, A, False)
    return dict(reproduced=bool(bad), detail="; ".join(bad[:3]))


def replay(case):
    if "mip-variable-declared-boolean" in str(case.get("_obligation", "")):
        # a relaxed variable shows where the LP relaxation is fractional: odd cycles among three annotators (both modes, both back-ends)
        r = pipeline.real_medium_check(dict(cases=pipeline.odd_cycle_cases()), mode="soft", backends=("cbc", "glpk_import"))
        if not r.get("reproduced"):
            r = pipeline.real_medium_check(dict(cases=pipeline.odd_cycle_cases() + pipeline.dense_cases(40)), mode="best", backends=("cbc", "glpk_import"))
        return r
    if case.get("kind") == "crowded":
        return _crowded()
    if case.get("kind") == "ieee-kernel":
        from . import c07
        return c07.replay(case)
    if case.get("kind") == "medium":
        return pipeline.real_medium_check(case, mode="best", backends=("cbc", "glpk_import"))
    return pipeline.replay_pipeline(case)


# translator validation (shared): the repository's own test inputs through both builds
tv_cases, tv_real, tv_sym, tv_compare_hook = pipeline.tv_cases, pipeline.tv_real, pipeline.tv_sym, pipeline.tv_compare_hook
