"""C08 -- alignment results do not depend on the MIP back-end (CBC vs GLPK fallback)."""
from symx import core, cpstub
from symx.core import Obl
from . import common, pipeline

META = dict(
    level="model_checking",
    technique="bounded symbolic execution (z3) of both solver branches of get_best_alignment / get_best_soft_alignment in one path; captured problems compared",
    design_ref="section 4 / C08",
    claim="For every configuration in the bound and all real inputs inside it: the problem handed to GLPK (cylp not importable, or CBC raising SolverError) "
          "has the same objective terms and exactly the same set of feasible 0/1 points as the one handed to CBC; the fallback is taken for both failure "
          "kinds and requests GLPK_MI; hence any two correct MIP solvers yield the same optimal disorder; on the smallest sizes all three configurations are decoded in one path "
          "and partition/cover structure plus equal disorders are asserted directly (the GLPK decode on larger sizes is C01's and C11's GLPK configurations).",
    trusted="z3; MIP stub contract; that CBC and GLPK return optimal 0/1 solutions of what they are given (tolerances vs the 0.9 threshold are outside the claim)",
    bounds=dict(quick="abstract pair values on (1,1),(2,1),(2,2),(1,1,1),(0,2); best and soft; 3 back-end configurations",
                thorough="+ (3,2),(2,1,1),(3,1)"),
    outside="the solvers' own correctness and numerical tolerances; continua beyond the symbolic shapes - anything that only happens above some number of candidates (a threshold, a "
            "reordering) is outside the solver claim and covered only by a concrete cross-check on the real build, run with every check and labelled as a test: continua with "
            "400-2400 candidate unitary alignments (3x14, 2x40, 4x6 units), best and soft, CBC and the GLPK fallback, partition / cover and disorder against an independent MILP over all tuples",
    stubs=["cvxpy/CBC/GLPK = contract stub recording solver choice, objective, constraint rows", "import cylp = succeeds / ImportError",
           "first solve() raising cvxpy.SolverError (configuration)"],
    assumptions=["pair dissimilarities symmetric and >= 0", "delta_empty > 0"],
    cfg_budget_s=dict(quick=200, thorough=900),
)


def configs(tier):
    out = []
    sz = [(1, 1), (2, 1), (2, 2), (1, 1, 1), (0, 2)]
    if tier == "thorough":
        sz += [(3, 2), (2, 1, 1), (3, 1)]
    for s in sz:
        for mode in ["best", "soft"]:
            if mode == "soft" and sum(s) >= 5:
                continue
            out.append(dict(key=f"{mode},sizes={s}", sizes=list(s), dissim="abstract", mode=mode, backend="cbc",
                            cost=len(common.all_tuples(s)) ** (2 if mode == "best" else 3)))
            if (sum(s) <= 3 and len(s) == 2) or (tier == "thorough" and (sum(s) <= 3 or (mode == "best" and s == (2, 2)))):
                out.append(dict(key=f"{mode},sizes={s},decode-all-backends", sizes=list(s), dissim="abstract", mode=mode, backend="cbc",
                                decode_all=True, cost=len(common.all_tuples(s)) ** 3))
    return out


def harness(cfg, ns):
    mode = cfg["mode"]

    def h(ctx):
        E = pipeline.setup(ns, ctx, cfg)
        rz = ctx.notes["realize"]
        runs = {}
        for b in ["cbc", "glpk_import", "glpk_solvererror"]:
            E["state"] = common.set_backend(b)
            A = None
            if b != "cbc" and not cfg.get("decode_all"):
                # capture-only: the problem handed to the fallback solver is recorded, decoding is not repeated
                E["state"].capture_only = True
                try:
                    pipeline.run_alignment(ns, E, mode)
                except cpstub.CaptureDone:
                    pass
            else:
                A = pipeline.run_alignment(ns, E, mode)
            runs[b] = (A, [p for p in E["state"].problems])
        obls = []
        A0, P0 = runs["cbc"]
        obls.append(Obl("cbc:requested-CBC", len(P0) == 1 and P0[0]["solver"] == "CBC", rz))
        f0 = cpstub.feasible_set(P0[-1])
        for b in ["glpk_import", "glpk_solvererror"]:
            A, P = runs[b]
            obls.append(Obl(f"{b}:fallback-requests-GLPK_MI", P[-1]["solver"] == "GLPK_MI", rz))
            if b == "glpk_solvererror":
                obls.append(Obl("glpk_solvererror:CBC-tried-first", len(P) == 2 and P[0]["solver"] == "CBC" and P[0].get("raised") == "SolverError", rz))
            obls += pipeline.solver_option_obls(P, rz, prefix=f"{b}:")
            same_n = P[-1]["n"] == P0[-1]["n"]
            obls.append(Obl(f"{b}:same-candidates", same_n, rz))
            if same_n:
                obls.append(Obl(f"{b}:same-feasible-0/1-set", cpstub.feasible_set(P[-1]) == f0, rz))
                obls.append(Obl(f"{b}:same-sense", P[-1]["sense"] == P0[-1]["sense"] == "min", rz))
                for j, (c1, c2) in enumerate(zip(P[-1]["objective"], P0[-1]["objective"])):
                    obls.append(Obl(f"{b}:same-objective-term", core.eq(c1, c2), rz))
            if A is not None:
                obls.append(Obl(f"{b}:same-optimal-disorder", core.eq(A.disorder, A0.disorder), rz))
                sob, _ = pipeline.structure_obls(E, A, mode == "soft", rz)
                obls += [Obl(f"{b}:" + o.name, o.e, rz) for o in sob]
        import types
        E["state"] = types.SimpleNamespace(problems=P0)      # the solver-option obligations of this call are about the CBC run
        sob, _ = pipeline.structure_obls(E, A0, mode == "soft", rz)
        obls += [Obl("cbc:" + o.name, o.e, rz) for o in sob]
        return obls
    return h


_EXACT_SEARCH = {}


def real_checks(tier):
    """concrete cross-check beyond the solver bound: continua with hundreds to thousands of candidate unitary alignments on the real build, both
    back-ends, best and soft: partition / cover, and the disorder of each back-end against an independent MILP (scipy / HiGHS) over all tuples"""
    import os
    return [dict(kind="large", name="best / soft alignment of continua with 500-3000 candidates: partition / cover and independent optimum under CBC and under the GLPK fallback",
                 seed=int(os.environ.get("VERIF_SEED", "0") or 0))]


def replay(case):
    if case.get("kind") == "large":
        cases = pipeline.large_cases(case.get("seed", 0))
        r = pipeline.real_medium_check(dict(cases=cases), mode="best", backends=("cbc", "glpk_import"))
        if not r.get("reproduced"):
            r = pipeline.real_medium_check(dict(cases=cases), mode="soft", backends=("cbc", "glpk_import"))
        return r
    if "mip-variable-declared-boolean" in str(case.get("_obligation", "")):
        # a relaxed variable shows where the LP relaxation is fractional: odd cycles among three annotators (both modes, both back-ends)
        r = pipeline.real_medium_check(dict(cases=pipeline.odd_cycle_cases()), mode="soft", backends=("cbc", "glpk_import"))
        if not r.get("reproduced"):
            r = pipeline.real_medium_check(dict(cases=pipeline.odd_cycle_cases() + pipeline.dense_cases(40)), mode="best", backends=("cbc", "glpk_import"))
        return r
    """both back-ends on the real build: structure + same disorder"""
    if "solver-asked-for-an-exact-optimum" in str(case.get("_obligation", "")):
        # an option passed to solve() shows on continua where the solver has to branch, not on the small symbolic shapes:
        # dense medium continua, both back-ends, best and soft, against an independent MILP over all tuples
        if "r" not in _EXACT_SEARCH:      # one search per replay process, shared by every counterexample of this kind
            cases = pipeline.dense_cases(120)
            r = pipeline.real_medium_check(dict(cases=cases), mode="best", backends=("cbc", "glpk_import"))
            if not r.get("reproduced"):
                r = pipeline.real_medium_check(dict(cases=cases[:40]), mode="soft", backends=("cbc", "glpk_import"))
            _EXACT_SEARCH["r"] = r
        return dict(_EXACT_SEARCH["r"])
    r = {}
    for b in ["cbc", "glpk_import", "glpk_solvererror"]:
        r[b] = pipeline.replay_pipeline(dict(case, backend=b))
    bad = [f"{b}: {v['detail']}" for b, v in r.items() if v.get("reproduced")]
    ds = [v.get("disorder") for v in r.values() if v.get("disorder") is not None]
    if ds and max(ds) - min(ds) > 2e-5 * max(1.0, max(ds)):
        bad.append(f"disorders differ across back-ends: { {b: v.get('disorder') for b, v in r.items()} }")
    return dict(reproduced=bool(bad), detail="; ".join(bad)[:400])


# translator validation (shared): the repository's own test inputs through both builds
tv_cases, tv_real, tv_sym, tv_compare_hook = pipeline.tv_cases, pipeline.tv_real, pipeline.tv_sym, pipeline.tv_compare_hook
