"""C11 -- the soft best alignment is a minimum-disorder cover (hence never above the best partition)."""
from symx import core
from symx.core import Obl
from . import common, pipeline, c02

META = dict(
    level="model_checking",
    technique="bounded symbolic execution (z3) of get_best_soft_alignment against an independent all-covers oracle, MIP optimality by contract",
    design_ref="section 4 / C11",
    claim="For every configuration in the bound and all real pair values >= 0 / delta_empty > 0 inside it, under the MIP contract: the soft alignment "
          "returns, is made of well-formed unitary alignments over the continuum's own units, contains every unit at least once, its disorder is <= "
          "the definitional disorder of every inclusion-minimal cover (hence of every cover, costs being >= 0, and of every partition) and equals the "
          "definitional disorder of the returned cover; on the smallest sizes best and soft are run in the same path and soft <= best is asserted directly.",
    trusted="z3; MIP stub contract; independent cover enumeration in harness/common.py; real arithmetic instead of float32",
    bounds=dict(quick="abstract pair values on (1,1),(2,1),(2,2),(1,1,1),(0,2) x back-ends {CBC, GLPK}; soft-vs-best in one path on (1,1),(2,1),(2,2)",
                thorough="+ (3,2),(2,1,1),(3,1),(2,2,1)"),
    outside="the 'independent MILP oracle on medium continua' of the quantifier (not a solver-on-the-code question); float32 rounding",
    stubs=["cvxpy/CBC/GLPK = contract stub", "numba.njit = identity", "np float arrays = object arrays of z3 reals"],
    assumptions=["pair dissimilarities symmetric and >= 0", "delta_empty > 0"],
    cfg_budget_s=dict(quick=200, thorough=900),
    replay_alarm_s=300,
)


def configs(tier):
    out = []
    for s in [(1, 1), (2, 1), (2, 2), (1, 1, 1), (0, 2), (2, 1, 0)]:
        for b in ["cbc", "glpk_import"]:
            out.append(dict(key=f"soft,sizes={s},{b}", sizes=list(s), dissim="abstract", backend=b, mode="soft",
                            cost=len(common.all_tuples(s)) ** 2))
    for s in [(1, 1), (2, 1), (2, 2)]:
        out.append(dict(key=f"soft-vs-best,sizes={s}", sizes=list(s), dissim="abstract", backend="cbc", mode="soft", both=True,
                        cost=len(common.all_tuples(s)) ** 2 * 3))
    # histories on one continuum object: an earlier computation, then an edit through the public API, then the alignment under test
    for s in [(2, 1), (1, 1, 1)]:
        for warm in ("remove", "add-remove", "other-continuum"):
            out.append(dict(key=f"soft,after-earlier-computation-and-{warm},sizes={s}", sizes=list(s), dissim="abstract", backend="cbc", mode="soft", warm=warm,
                            cost=len(common.all_tuples(s)) ** 2))
    if tier == "thorough":
        for s in [(3, 2), (2, 1, 1), (3, 1), (2, 2, 1)]:
            out.append(dict(key=f"soft,sizes={s},cbc", sizes=list(s), dissim="abstract", backend="cbc", mode="soft",
                            cost=len(common.all_tuples(s)) ** 3))
        out.append(dict(key="soft,sizes=(2, 1, 1),glpk_import", sizes=[2, 1, 1], dissim="abstract", backend="glpk_import", mode="soft", cost=3000))
    # units of one annotator may start together (ties on position: the container orders them by end, then label)
    out.append(dict(key="soft,positional,sizes=(2, 1),ties-on-start-allowed", sizes=[2, 1], dissim="positional", labels="mixed", backend="cbc", mode="soft", ties=True, cost=400))
    return out


def harness(cfg, ns):
    sizes = tuple(cfg["sizes"])
    covers = common.minimal_covers(sizes)

    def h(ctx):
        E = pipeline.setup(ns, ctx, cfg)
        rz = ctx.notes["realize"]
        A = pipeline.run_alignment(ns, E, "soft")
        obls, tuples = pipeline.structure_obls(E, A, True, rz)
        obls += c02.optimal_obls(E, A, tuples, covers, rz, what="soft")
        obls.append(Obl("returned-alignment-well-formed", tuples is not None, rz))
        probs = E["state"].problems
        obls.append(Obl("one-problem-solved", len([p for p in probs if "raised" not in p]) == 1, rz))
        if cfg.get("both"):
            B = pipeline.run_alignment(ns, E, "best")
            obls.append(Obl("soft-disorder<=best-disorder", core.approx_le(A.disorder, B.disorder, B.disorder), rz))
        return obls
    return h


def real_checks(tier):
    """concrete cross-check beyond the solver bound: medium continua (3x5, 4x4, 2x9, 5x3 units, an annotator without units, overlapping /
    nested / unlabelled units) on the real build against an independent MILP (scipy / HiGHS) over ALL tuples, both back-ends"""
    import os
    return [dict(kind="medium", name="soft alignment of medium continua == independent MILP optimum over all tuples (both back-ends)",
                 seed=int(os.environ.get("VERIF_SEED", "0") or 0))]


def replay(case):
    if "mip-variable-declared-boolean" in str(case.get("_obligation", "")):
        # a relaxed variable shows where the LP relaxation is fractional: odd cycles among three annotators (both modes, both back-ends)
        r = pipeline.real_medium_check(dict(cases=pipeline.odd_cycle_cases()), mode="soft", backends=("cbc", "glpk_import"))
        if not r.get("reproduced"):
            r = pipeline.real_medium_check(dict(cases=pipeline.odd_cycle_cases() + pipeline.dense_cases(40)), mode="best", backends=("cbc", "glpk_import"))
        return r
    if case.get("kind") == "medium":
        return pipeline.real_medium_check(case, mode="soft", backends=("cbc", "glpk_import"))
    return pipeline.replay_pipeline(case)


# translator validation (shared): the repository's own test inputs through both builds
tv_cases, tv_real, tv_sym, tv_compare_hook = pipeline.tv_cases, pipeline.tv_real, pipeline.tv_sym, pipeline.tv_compare_hook
