"""C05 -- gamma = 1 - observed/expected over max(n_samples, N_required) chance samples.
(The same harness, with a symbolic job schedule, serves C06.)"""
import itertools
from fractions import Fraction

import z3

from symx import core, stubs, cpstub
from symx.core import Obl, SymNum, SymBool, lift, lb, mval
from . import common, pipeline

META = dict(
    level="model_checking",
    technique="bounded symbolic execution (z3, nonlinear reals) of Continuum.compute_gamma and GammaResults under spies (alignment methods, sampler, executor, np.std) with symbolic disorders and precision",
    design_ref="section 4 / C05",
    claim="For every configuration in the bound (mode, precision kind, n_samples, ground truth) and ALL positive chance disorders, observed disorder >= 0 "
          "and numeric precision 0 < p < 1: the observed disorder is that of the input continuum's alignment in the requested mode (soft+fast raises); "
          "exactly max(n_samples, N) chance alignments are held, N = ceil((1.96*sd/mean/p)^2) with sd = np.std and mean over exactly the first n_samples "
          "chance disorders (N within the extra-sample bound), none extra without a precision level; each is the same-mode alignment of a distinct sample "
          "drawn by the sampler that was initialised with (self, ground_truth_annotators); expected = mean of all chance disorders; gamma = 1 - "
          "observed/expected, 1 when observed is 0, <= 1; named precision levels use the module's table; identical annotations give disorder 0 hence "
          "gamma 1 (real pipeline, symbolic coordinates).",
    trusted="z3 (nlsat); np.std = uninterpreted value >= 0 of the logged argument list; alignment algorithms replaced by spies (their own properties are C01-C03, "
            "C10, C11); samplers' validity is C15/C16",
    bounds=dict(quick="n_samples in {1,2,3}; <= 3 extra samples (ceil case split up to n_samples+3); modes exact/soft/fast(window inf and finite); precision "
                      "None / numeric / 'high','medium','low'; ground truth None or a subset",
                thorough="n_samples up to 4, <= 4 extra samples, identical-annotation pipeline on (2,2) and (1,1,1)"),
    outside="N_required beyond the extra-sample bound (paths cut and counted); float rounding of the coefficient of variation",
    stubs=["ThreadPoolExecutor = deferred executor (jobs forced at result())", "np.std = fresh value >= 0", "np.ceil = bounded threshold case split",
           "Continuum.get_best_alignment / get_best_soft_alignment / get_fast_alignment / measure_best_window_size = spies returning alignments with fresh symbolic disorders",
           "sampler = stub returning a fresh tagged continuum per access"],
    assumptions=["chance disorders > 0 - or, without a precision level, >= 0 provided the observed disorder is 0 when they are all 0", "observed disorder >= 0", "0 < numeric precision < 1"],
    cfg_budget_s=dict(quick=240, thorough=900),
)


def configs(tier):
    out = []
    ns_list = (1, 2, 3) if tier == "quick" else (1, 2, 3, 4)
    for n in ns_list:
        out.append(dict(key=f"exact,n_samples={n},precision=None", mode="exact", n=n, prec=None, cost=5))
        out.append(dict(key=f"exact,n_samples={n},precision=numeric", mode="exact", n=n, prec="numeric", extra=3 if tier == "quick" else 4, cost=200 * n))
    for mode in ("soft", "fast-inf", "fast-2"):
        out.append(dict(key=f"{mode},n_samples=2,precision=numeric", mode=mode, n=2, prec="numeric", extra=2, cost=300))
        out.append(dict(key=f"{mode},n_samples=2,precision=None,gt-subset", mode=mode, n=2, prec=None, gt=True, cost=5))
    out.append(dict(key="soft,n_samples=2,precision=numeric,gt-subset", mode="soft", n=2, prec="numeric", extra=2, gt=True, cost=300))
    for name in ("high", "medium", "low"):
        out.append(dict(key=f"exact,n_samples=2,precision={name}", mode="exact", n=2, prec=name, extra=2, cost=300))
    out.append(dict(key="soft+fast-raises", mode="soft+fast", n=1, prec=None, cost=1))
    for smp in ("statistical", "shuffle"):
        out.append(dict(key=f"real-{smp}-sampler-reused-with-another-ground-truth", mode="reuse", sampler=smp, n=1, prec=None, cost=400, split=16))
    out.append(dict(key="default-sampler-and-dissimilarity", mode="defaults", n=1, prec=None, cost=5))
    for s in ([(1, 1), (2, 2)] if tier == "quick" else [(1, 1), (2, 2), (1, 1, 1), (2, 2, 2)]):
        out.append(dict(key=f"identical-annotations,sizes={s}", mode="identical", sizes=list(s), n=1, prec=None, cost=300))
    return out


class Tagged:
    pass


def install_spies(ns, ctx, rec, fast_window=float("inf"), schedule=None, rng=None):
    """returns an undo function"""
    co, al = ns.co, ns.al
    saved = {k: getattr(co.Continuum, k) for k in ("get_best_alignment", "get_best_soft_alignment", "get_fast_alignment", "measure_best_window_size")}
    saved_ex = co.ThreadPoolExecutor

    def mk(kind):
        def spy(self, dissimilarity, *a):
            lo = 0 if getattr(self, "tag", None) == "input" else None
            d = ctx.fresh("obs" if lo == 0 else "ch!", lo=0)
            if rec.get("allow_degenerate"):
                # degenerate case (no precision level only): every chance disorder may be 0 provided the observed one is 0 too
                # (identical annotators whose samples also agree); 1 - observed/0 with observed > 0 is defined by nobody
                Z = ctx.notes.get("degenerate")
                if Z is None:
                    Z = ctx.notes["degenerate"] = ctx.fresh_bool("degenerate").e
                ctx.solver.add(z3.Or(d.e > 0, Z) if lo is None else z3.Implies(Z, d.e == 0))
            elif lo is None:
                ctx.solver.add(d.e > 0)
            A = al.Alignment([], self, disorder=d)
            A.kind, A.of, A.args = kind, self, a
            A.dissim = dissimilarity
            rec["alignments"].append(A)
            return A
        return spy
    co.Continuum.get_best_alignment = mk("best")
    co.Continuum.get_best_soft_alignment = mk("soft")
    co.Continuum.get_fast_alignment = mk("fast")

    def mbws(self, dissimilarity):
        rec["measure"].append((self, dissimilarity))
        self.best_window_size = fast_window
    co.Continuum.measure_best_window_size = mbws
    rec["executors"] = []
    co.ThreadPoolExecutor = stubs.DeferredExecutor.make(rng=rng, schedule=schedule, record=rec["executors"])
    # collecting results "as they complete" is a schedule point too: the completion order is any permutation
    undo_completion = stubs.install_completion_stubs(co, schedule)

    def undo():
        for k, v in saved.items():
            setattr(co.Continuum, k, v)
        co.ThreadPoolExecutor = saved_ex
        undo_completion()
    return undo


def verbose_logging():
    """the root logger at INFO, as the command line's --verbose (or an application's own logging set-up) puts it; records go to a
    null handler.  Returns an undo function."""
    import logging
    root = logging.getLogger()
    saved = (root.level, logging.root.manager.disable)
    h = logging.NullHandler()
    root.addHandler(h)
    logging.disable(logging.NOTSET)
    root.setLevel(logging.INFO)

    def undo():
        root.setLevel(saved[0])
        logging.disable(saved[1])
        root.removeHandler(h)
    return undo


def make_stub_sampler(ns, rec):
    sa, co = ns.sa, ns.co

    class StubSampler(sa.AbstractContinuumSampler):
        def __init__(self):
            super().__init__()
            self.n = 0

        def init_sampling(self, ref, gt=None):
            rec["inits"].append((ref, gt))
            self._reference_continuum = ref

        @property
        def sample_from_continuum(self):
            c = self._reference_continuum.copy_flush()
            c.tag = ("sample", self.n)
            rec["drawn_in_job"].append(rec["rng"].in_job if rec.get("rng") is not None else 0)
            self.n += 1
            return c
    return StubSampler()


def harness(cfg, ns, schedule_factory=None):
    co, al, Segment = ns.co, ns.al, ns.Segment
    mode = cfg["mode"]

    def h(ctx):
        if mode == "identical":
            return identical(ctx)
        if mode == "reuse":
            return reuse(ctx)
        rec = dict(alignments=[], measure=[], inits=[], drawn_in_job=[], allow_degenerate=(cfg["prec"] is None and schedule_factory is None))
        rng = stubs.RNG(ctx, max_draws=10)
        rec["rng"] = rng
        ns.np.random = rng
        ns.np.std_calls = []
        n = cfg["n"]
        ns.np.ceil_max = n + cfg.get("extra", 0)
        fast_window = float("inf") if mode != "fast-2" else 2
        sched = schedule_factory(ctx, rec) if schedule_factory else None
        undo_spies = install_spies(ns, ctx, rec, fast_window=fast_window, schedule=sched, rng=rng)
        undo_log = verbose_logging() if cfg.get("verbose") else (lambda: None)

        def undo():
            undo_spies()
            undo_log()
        try:
            c = co.Continuum()
            for a in ("a", "b", "c"):
                c.add(a, Segment(0, 1), "x")
            c.tag = "input"
            sampler = make_stub_sampler(ns, rec)

            class D:
                delta_empty = 1
            dissim = D()
            p = None
            if cfg["prec"] == "numeric":
                p = ctx.fresh("precision")
                ctx.solver.add(p.e > 0, p.e < 1)
            elif cfg["prec"] is not None:
                p = cfg["prec"]
            gt = ["a", "c"] if cfg.get("gt") else None

            def rz(m):
                return dict(kind="gamma", mode=mode, n=n, verbose=bool(cfg.get("verbose")), prec=(common.frs(mval(m, p)) if isinstance(p, SymNum) else p), gt=gt,
                            disorders=[common.frs(mval(m, A.disorder)) for A in rec["alignments"]],
                            std=[common.frs(mval(m, sv)) for _, sv in ns.np.std_calls])
            ctx.notes["realize"] = rz
            kw = dict(n_samples=n, precision_level=p, ground_truth_annotators=gt, sampler=sampler)
            if mode == "soft+fast":
                try:
                    c.compute_gamma(dissim, fast=True, soft=True, **kw)
                    return [Obl("soft+fast-refused", False, rz)]
                except NotImplementedError:
                    return [Obl("soft+fast-refused", True, rz)]
            if mode == "defaults":
                saved = (ns.ds.CombinedCategoricalDissimilarity, ns.sa.StatisticalContinuumSampler)
                made = []

                class FakeD:
                    def __init__(self, *a, **k):
                        made.append(("dissim", a, k))

                def fake_sampler():
                    made.append(("sampler",))
                    return sampler
                ns.ds.CombinedCategoricalDissimilarity = FakeD
                ns.sa.StatisticalContinuumSampler = fake_sampler
                try:
                    res = c.compute_gamma(n_samples=n)
                finally:
                    ns.ds.CombinedCategoricalDissimilarity, ns.sa.StatisticalContinuumSampler = saved
                return [Obl("defaults: combined dissimilarity with default parameters", ("dissim", (), {}) in made and isinstance(res.dissimilarity, FakeD), rz),
                        Obl("defaults: statistical sampler", ("sampler",) in made and len(rec["inits"]) == 1, rz)]
            res = c.compute_gamma(dissim, fast=mode.startswith("fast"), soft=(mode == "soft"), **kw)
        finally:
            undo()
        ctx.notes["inputs"] = [A.disorder for A in rec["alignments"]] + ([p] if isinstance(p, SymNum) else [])
        want_kind = {"exact": "best", "soft": "soft", "fast-inf": "best", "fast-2": "fast"}[mode]
        obls = []
        B = res.best_alignment
        obls.append(Obl("observed-is-the-input's-alignment-in-the-requested-mode", B.of is c and B.kind == want_kind, rz))
        obls.append(Obl("dissimilarity-forwarded", B.dissim is dissim and res.dissimilarity is dissim, rz))
        if mode == "fast-2":
            obls.append(Obl("fast: window size forwarded", tuple(B.args) == (2,), rz))
        if mode.startswith("fast"):
            obls.append(Obl("fast: window measured once on the input", len(rec["measure"]) == 1 and rec["measure"][0][0] is c, rz))
        else:
            obls.append(Obl("window-not-measured-outside-fast-mode", len(rec["measure"]) == 0, rz))
        obls.append(Obl("sampler-initialised-with-(self, ground_truth)", len(rec["inits"]) == 1 and rec["inits"][0][0] is c and rec["inits"][0][1] == gt, rz))
        ch = res.chance_alignments
        N = len(ch)
        obls.append(Obl("n_samples-property", res.n_samples == N, rz))
        tags = [getattr(A.of, "tag", None) for A in ch]
        obls.append(Obl("each-chance-alignment-of-a-distinct-fresh-sample(in draw order)", tags == [("sample", i) for i in range(N)] and sampler.n == N, rz))
        obls.append(Obl("chance-alignments-same-mode", all(A.kind == want_kind and A.dissim is dissim for A in ch), rz))
        if mode == "fast-2":
            obls.append(Obl("fast: samples inherit the window size", all(tuple(A.args) == (2,) for A in ch), rz))
        xs = [A.disorder for A in ch]
        first = xs[:n]
        pv = None
        if cfg["prec"] is None:
            obls.append(Obl("no-precision: exactly n_samples", N == n, rz))
            obls.append(Obl("no-precision: np.std unused", len(ns.np.std_calls) == 0, rz))
        else:
            pv = p if isinstance(p, SymNum) else co.PRECISION_LEVEL[p]
            ok_std = len(ns.np.std_calls) == 1 and len(ns.np.std_calls[0][0]) == n and all(a is b for a, b in zip(ns.np.std_calls[0][0], first))
            obls.append(Obl("CV-from-exactly-the-first-n_samples-disorders", ok_std, rz))
            if ok_std:
                sd = ns.np.std_calls[0][1]
                mean = 0
                for x in first:
                    mean = mean + x
                mean = mean / n
                cv = sd / mean
                q = (cv * Fraction(1.96) / pv)
                q = q * q
                if N > n:
                    obls.append(Obl("count==max(n_samples, ceil((1.96*CV/p)^2))", SymBool(z3.And(N - 1 < lift(q), lift(q) <= N)), rz))
                else:
                    obls.append(Obl("count==max(n_samples, ceil((1.96*CV/p)^2))", SymBool(z3.And(z3.BoolVal(N == n), lift(q) <= n)), rz))
            obls.append(Obl("precision-level-recorded", core.eq(res.precision_level, pv), rz))
        tot = 0
        for x in xs:
            tot = tot + x
        exp = tot / N
        obls.append(Obl("expected==mean-of-all-chance-disorders", core.eq(res.expected_disorder, exp), rz))
        obls.append(Obl("observed==disorder-of-the-input-alignment", core.eq(res.observed_disorder, B.disorder), rz))
        g = res.gamma
        obls.append(Obl("gamma==1-observed/expected(1 when observed is 0)", SymBool(z3.If(lift(B.disorder) == 0, lift(g) == 1, lift(g) == 1 - lift(B.disorder) / lift(exp))), rz))
        obls.append(Obl("gamma<=1", SymBool(lift(g) <= 1), rz))
        # schedule-independence facts (C06)
        obls.append(Obl("no-sample-drawn-inside-a-job", not any(rec["drawn_in_job"]), rz))
        obls.append(Obl("no-rng-call-inside-a-job", rng.calls_in_job == 0, rz))
        obls.append(Obl("no-generator-created-beside-the-seeded-global-state", rng.private_generators == 0, rz))
        return obls

    def reuse(ctx):
        """the same real sampler object handed to two gamma computations of the same continuum, the second with a
        ground-truth subset: the chance continua of the second must come from that subset"""
        rec = dict(alignments=[], measure=[], inits=[], drawn_in_job=[])
        rng = stubs.RNG(ctx, max_draws=40)
        rng.assume_nonzero_weight = (cfg["sampler"] == "statistical")
        rec["rng"] = rng
        ns.np.random = rng
        ns.np.std_calls = []
        # concrete reference (the staleness at stake is structural; two symbolic samplings multiply the paths), symbolic draws
        c, info = common.build_continuum(ns, ctx, (1, 1, 1), coords="fixed", labels=["x", "y", "x"])
        c.add_annotator(common.ANN[3])          # an annotator who is part of the continuum (and of the ground truth) without any unit
        c.tag = "input"
        rng.max_draws = 16

        def rz(m):
            return dict(kind="reuse", sampler=cfg["sampler"], units=[[common.ANN[a], common.frs(mval(m, v["start"])), common.frs(mval(m, v["end"])), v["label"]]
                                                                      for (a, j), v in sorted(info.items())])
        ctx.notes["realize"] = rz
        ctx.notes["inputs"] = [v[k] for v in info.values() for k in ("start", "end")]
        if cfg["sampler"] == "statistical":
            smp = ns.sa.StatisticalContinuumSampler()
            orig = rng.normal
            durs = [0]

            def normal(mu=0.0, sd=1.0, size=None):
                v = orig(mu, sd)
                if not isinstance(mu, SymNum) and mu == getattr(smp, "_avg_nb_units_per_annotator", None):
                    ctx.solver.add(v.e > -2, v.e < 2)
                    ctx.get_model()
                elif mu is getattr(smp, "_avg_unit_duration", None):
                    durs[0] += 1
                    if durs[0] > 8:
                        raise core.Cut("duration-redraws")
                return v
            rng.normal = normal
        else:
            smp = ns.sa.ShuffleContinuumSampler(pivot_type="float_pivot")
        undo = install_spies(ns, ctx, rec, rng=rng)
        try:
            class D:
                delta_empty = 1
            d = D()
            smp.init_sampling(c)            # an earlier use of the sampler on the same continuum object, all annotators
            gt = [common.ANN[0], common.ANN[2], common.ANN[3]]      # not a prefix of the annotators; its last member made no annotation
            r2 = c.compute_gamma(d, n_samples=1, sampler=smp, ground_truth_annotators=gt)
        finally:
            undo()
        s2 = r2.chance_alignments[0].of
        if cfg["sampler"] == "statistical":
            return [Obl("re-used sampler: samples come from the new ground truth", list(s2.annotators) == gt, rz)]
        # the ground truth {a0, a2} is not a prefix of the annotators; its units are labelled 'x', the left-out annotator's 'y'
        gt_labels = {info[(a, 0)]["label"] for a in (0, 2)}
        return [Obl("re-used sampler: as many sampled annotators as ground-truth annotators", len(s2.annotators) == len(gt), rz),
                Obl("re-used sampler: uses the new ground truth", list(smp._ground_truth_annotators) == gt, rz),
                Obl("shuffle sampler: every sampled annotator copies a ground-truth annotator (labels of the left-out annotator never appear)",
                    all(u.annotation in gt_labels for _, u in s2), rz)]

    def identical(ctx):
        sizes = tuple(cfg["sizes"])
        st = common.set_backend("cbc")
        ns.co.cp = cpstub
        de = ctx.fresh("de")
        ctx.solver.add(de.e > 0)
        alpha, beta = ctx.fresh("alpha", lo=0), ctx.fresh("beta", lo=0)
        c = co.Continuum()
        coords = []
        for j in range(sizes[0]):
            s_, e_ = ctx.fresh(f"s{j}_"), ctx.fresh(f"e{j}_")
            ctx.solver.add(e_.e - s_.e > lift(ns.pseg.SEGMENT_PRECISION))
            if coords:
                ctx.solver.add(s_.e > coords[-1][0].e)
            coords.append((s_, e_))
        for a in range(len(sizes)):
            for j, (s_, e_) in enumerate(coords):
                c.add(common.ANN[a], Segment(s_, e_), "xy"[j % 2])
        D = ns.ds.CombinedCategoricalDissimilarity(alpha=alpha, beta=beta, delta_empty=de)

        def rz(m):
            return dict(kind="identical", sizes=list(sizes), de=common.frs(mval(m, de)), alpha=common.frs(mval(m, alpha)), beta=common.frs(mval(m, beta)),
                        coords=[[common.frs(mval(m, a)), common.frs(mval(m, b))] for a, b in coords])
        ctx.notes["realize"] = rz
        ctx.notes["inputs"] = [de, alpha, beta] + [x for ab in coords for x in ab]
        ctx.notes["scales"] = [de]
        A = c.get_best_alignment(D)
        res = co.GammaResults(best_alignment=A, chance_alignments=[al.Alignment([], c, disorder=ctx.fresh("ch", lo=1))], dissimilarity=D)
        return [Obl("identical-annotations: observed disorder is 0", core.eq(A.disorder, 0), rz),
                Obl("identical-annotations: gamma is 1", core.eq(res.gamma, 1), rz)]
    return h


# ---------------------------------------------------------------------------------------------
def replay(case):
    """The counterexample is realised on the real build with the same spies (alignment methods return
    alignments carrying the model's disorders, np.std returns the model's value): compute_gamma and
    GammaResults run for real."""
    import numpy as np
    import pygamma_agreement as pa
    import pygamma_agreement.continuum as co
    from pygamma_agreement.alignment import Alignment
    from pygamma_agreement.sampler import AbstractContinuumSampler
    from pyannote.core import Segment
    from unittest import mock
    F = lambda x: float(Fraction(x))     # noqa: E731
    if case["kind"] == "reuse":
        from pygamma_agreement.sampler import StatisticalContinuumSampler, ShuffleContinuumSampler
        c = common.real_continuum(dict(units=case["units"], annotators=common.ANN[:4]))
        smp = StatisticalContinuumSampler() if case["sampler"] == "statistical" else ShuffleContinuumSampler()
        d = pa.CombinedCategoricalDissimilarity()
        np.random.seed(5)
        smp.init_sampling(c)
        gt = [common.ANN[0], common.ANN[2], common.ANN[3]]
        r2 = c.compute_gamma(d, n_samples=12, sampler=smp, ground_truth_annotators=gt)
        bad = []
        gt_labels = {u.annotation for a, u in c if a in gt}
        for A in r2.chance_alignments:
            anns = list(A.continuum.annotators)
            if (case["sampler"] == "statistical" and anns != gt) or len(anns) != len(gt):
                bad.append(f"chance continuum annotators {anns} for ground truth {gt}")
            if case["sampler"] != "statistical" and any(u.annotation not in gt_labels for _, u in A.continuum):
                bad.append(f"a chance continuum holds units of an annotator outside the ground truth {gt}: labels {sorted({str(u.annotation) for _, u in A.continuum})}")
        return dict(reproduced=bool(bad), detail="; ".join(bad[:2]))
    if case["kind"] == "identical":
        c = pa.Continuum()
        for a in range(len(case["sizes"])):
            for j, (s, e) in enumerate(case["coords"]):
                c.add(common.ANN[a], Segment(F(s), F(e)), "xy"[j % 2])
        D = pa.CombinedCategoricalDissimilarity(alpha=F(case["alpha"]), beta=F(case["beta"]), delta_empty=F(case["de"]))
        A = c.get_best_alignment(D)
        g = c.compute_gamma(D, n_samples=2).gamma
        bad = []
        if abs(float(A.disorder)) > 1e-6:
            bad.append(f"identical annotations have disorder {A.disorder}")
        if abs(float(g) - 1) > 1e-6:
            bad.append(f"identical annotations have gamma {g}")
        return dict(reproduced=bool(bad), detail="; ".join(bad))
    dis = [F(x) for x in case["disorders"]]
    stds = [F(x) for x in case["std"]]
    mode, n = case["mode"], case["n"]
    it = iter(dis)
    made = []

    def mk(kind):
        def spy(self, dissimilarity, *a):
            try:
                d = next(it)
            except StopIteration:
                d = dis[-1] if dis else 1.0
            A = Alignment([], self, disorder=d)
            A.kind, A.of, A.args = kind, self, a
            made.append(A)
            return A
        return spy

    class Stub(AbstractContinuumSampler):
        def __init__(self):
            super().__init__()
            self.n = 0
            self.inits = []

        def init_sampling(self, ref, gt=None):
            self.inits.append((ref, gt))
            self._reference_continuum = ref

        @property
        def sample_from_continuum(self):
            c = self._reference_continuum.copy_flush()
            c.tag = ("sample", self.n)
            self.n += 1
            return c
    c = pa.Continuum()
    for a in ("a", "b", "c"):
        c.add(a, Segment(0, 1), "x")
    c.tag = "input"
    sampler = Stub()
    prec = case["prec"]
    p = F(prec) if isinstance(prec, str) and "/" in prec else prec
    window = 2 if mode == "fast-2" else np.inf

    measured = []

    def mbws(self, d):
        measured.append(self)
        self.best_window_size = window
    std_it = iter(stds)
    real_std = np.std
    std_args = []

    def fake_std(xs, *a, **k):
        std_args.append(list(xs))
        try:
            return next(std_it)
        except StopIteration:
            return real_std(xs)
    bad = []
    with mock.patch.object(co.Continuum, "get_best_alignment", mk("best")), mock.patch.object(co.Continuum, "get_best_soft_alignment", mk("soft")), \
            mock.patch.object(co.Continuum, "get_fast_alignment", mk("fast")), mock.patch.object(co.Continuum, "measure_best_window_size", mbws), \
            mock.patch("numpy.std", fake_std):
        class D:
            delta_empty = 1
        try:
            res = c.compute_gamma(D(), n_samples=n, precision_level=p, ground_truth_annotators=case["gt"], sampler=sampler,
                                  fast=mode.startswith("fast"), soft=(mode == "soft"))
        except Exception as ex:     # noqa: BLE001
            return dict(reproduced=True, detail="compute_gamma raised " + repr(ex)[:300])
        want_kind = {"exact": "best", "soft": "soft", "fast-inf": "best", "fast-2": "fast"}[mode]
        if mode.startswith("fast"):
            if len(measured) != 1 or measured[0] is not c:
                bad.append(f"fast mode: the window size was measured {len(measured)} time(s), on {[getattr(x, 'tag', None) for x in measured]} (once, on the input, is what the samples inherit)")
        elif measured:
            bad.append("the window size was measured outside fast mode")
        B = res.best_alignment
        if B.of is not c or B.kind != want_kind:
            bad.append(f"observed alignment is {B.kind} of {getattr(B.of, 'tag', None)}")
        ch = res.chance_alignments
        N = len(ch)
        if [getattr(A.of, "tag", None) for A in ch] != [("sample", i) for i in range(N)] or sampler.n != N:
            bad.append(f"chance alignments are of samples {[getattr(A.of, 'tag', None) for A in ch]}; {sampler.n} samples were drawn")
        if any(A.kind != want_kind for A in ch):
            bad.append("a chance alignment was computed in another mode")
        if len(sampler.inits) != 1 or sampler.inits[0][0] is not c or sampler.inits[0][1] != case["gt"]:
            bad.append("sampler initialised with other arguments")
        xs = [float(A.disorder) for A in ch]
        if p is None:
            if N != n:
                bad.append(f"{N} chance samples for n_samples={n} without precision level")
        else:
            pv = co.PRECISION_LEVEL[p] if isinstance(p, str) else p
            if not std_args or len(std_args[0]) != n or [float(v) for v in std_args[0]] != xs[:n]:
                bad.append(f"np.std called on {std_args[:1]}, first batch is {xs[:n]}")
            elif stds:
                cv = stds[0] / (sum(xs[:n]) / n)
                q = (cv * 1.96 / pv) ** 2
                want = max(n, int(np.ceil(q)))
                if N != want and abs(q - round(q)) > 1e-9:
                    bad.append(f"{N} chance samples held, max(n_samples, ceil((1.96*CV/p)^2)) = {want}")
        if xs:
            exp = sum(xs) / len(xs)
            if abs(float(res.expected_disorder) - exp) > 1e-6 * max(1, exp):
                bad.append(f"expected disorder {res.expected_disorder} != mean of chance disorders {exp}")
            g = float(res.gamma)
            wantg = 1.0 if float(B.disorder) == 0 else 1 - float(B.disorder) / exp
            if abs(g - wantg) > 1e-6 * max(1, abs(wantg)):
                bad.append(f"gamma {g} != {wantg}")
    return dict(reproduced=bool(bad), detail="; ".join(bad[:3])[:500])
