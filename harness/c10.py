"""C10 -- the fast alignment terminates with a valid, never-better-than-optimal alignment."""
from fractions import Fraction

import z3

from symx import core
from symx.core import Obl, SymNum, SymBool, lift, lb, mval
from . import common
from .common import ANN

META = dict(
    level="model_checking",
    technique="bounded symbolic execution (z3) of get_fast_alignment / get_first_window / take_until_limit / copy / remove, with get_best_alignment replaced by its contract (assume-guarantee: some optimal partition of the window, as established by C01-C03)",
    design_ref="section 4 / C10",
    claim="For every continuum shape and window size in the bound, ALL unit coordinates (overlaps, nestings, coincidences across annotators), all pair "
          "dissimilarities >= 0, delta_empty > 0 and EVERY optimal partition the exact algorithm may return for each window: every loop iteration "
          "removes at least one unit (so the computation terminates), the result is a partition of the continuum's own units, its reported disorder "
          "equals the sum of the carried unitary disorders over the ORIGINAL mean units per annotator and the definitional value, it is never below "
          "the optimum over all partitions and equals it when the window covers the whole continuum; the fast-gamma job uses the exact algorithm iff "
          "best_window_size is inf and samples inherit the window size (copy_flush).",
    trusted="z3; the contract of get_best_alignment (C01/C02/C03 decide it); independent all-partitions oracle; real arithmetic instead of float32",
    bounds=dict(quick="(+ shape (2,1,1) with window 1: three annotators and more units than one window takes) sizes (1,1),(2,1),(1,1,1),(2,2),(0,2),(2,1,0) x window sizes 1..2", thorough="+ (3,2),(2,2,1),(3,1) x window sizes 1..3"),
    outside="windows with more than 5 units; measure_best_window_size's cost model (concrete arithmetic, not a property of the result)",
    stubs=["Continuum.get_best_alignment = contract (fork over the oracle's exact covers of the window, assume optimal)", "dissimilarity = one free symbol >= 0 per unit pair, d and d_mat consistent"],
    assumptions=["units of one annotator listed by strictly increasing start", "pair dissimilarities symmetric and >= 0", "delta_empty > 0"],
    # which optimal partition the real MIP solver returns on a tie is its own choice: a counterexample that goes through one particular
    # optimal answer of a window may not reproduce, so more of them are replayed (one reproducing is enough, see the driver)
    replays_per_kind=8, replays_max=120,
    cfg_budget_s=dict(quick=240, thorough=900),
    replay_alarm_s=25,
    timeout_is_violation=True,
)


def configs(tier):
    out = []
    for s in [(1, 1), (2, 1), (1, 1, 1), (0, 2), (2, 2), (2, 1, 0)]:
        for w in (1, 2):
            out.append(dict(key=f"sizes={s},window={w}", sizes=list(s), w=w, cost=10 ** sum(s), split=(24 if sum(s) >= 3 else None)))
    # three annotators and more units than one window takes (w * n < units): the tail of the run sees a single annotator with units left
    out.append(dict(key="sizes=(2, 1, 1),window=1", sizes=[2, 1, 1], w=1, cost=10 ** 4, split=32))
    # units of one annotator may start together (the container then orders them by end, then label)
    out.append(dict(key="sizes=(2, 1),window=1,ties-on-start-allowed", sizes=[2, 1], w=1, ties=True, cost=3000, split=24))
    out.append(dict(key="job-dispatch", kind="dispatch", cost=1))
    for c_ in out:
        c_.setdefault("path_alarm_s", 20)       # one path of the fast alignment takes milliseconds: a path still running after 20 s does not terminate
    out.append(dict(key="sizes=(1, 1),window=1,after-earlier-fast-alignment-and-remove", sizes=[1, 1], w=1, warm=True, cost=3000, split=24))
    if tier == "thorough":
        out.append(dict(key="sizes=(2, 1),window=1,after-earlier-fast-alignment-and-remove", sizes=[2, 1], w=1, warm=True, cost=30000, split=48))
    if tier == "thorough":
        for s in [(3, 1), (3, 2), (2, 2, 1)]:
            for w in (1, 2, 3):
                out.append(dict(key=f"sizes={s},window={w}", sizes=list(s), w=w, cost=10 ** sum(s), split=48))
    return out


class Stall(BaseException):
    pass


def contract_best_alignment(ns, ctx, table):
    """get_best_alignment replaced by what C01-C03 establish: SOME partition of the continuum that is
    optimal for the pair values, as real Alignment / UnitaryAlignment objects with definitional disorders."""
    al = ns.al

    def contract(self, D):
        anns = list(self._annotations.keys())
        units = [list(self._annotations[a]) for a in anns]
        sizes = tuple(len(u) for u in units)
        n = len(sizes)
        assert n >= 2 and sum(sizes) >= 1
        covers = common.exact_covers(sizes)
        de = D.delta_empty

        def pair(x, y):
            return D.d(units[x[0]][x[1]], units[y[0]][y[1]])
        costs = [common.alignment_cost(cov, sizes, de, pair) for cov in covers]
        k = ctx.choose(len(covers), tag="opt_cover")
        ctx.assume(SymBool(z3.And(*[lift(costs[k]) <= lift(c) for c in costs])))
        uas = []
        for t in covers[k]:
            ua = al.UnitaryAlignment([(anns[a], units[a][t[a]] if t[a] != sizes[a] else None) for a in range(n)])
            ua.disorder = common.tuple_cost(t, sizes, de, pair)
            uas.append(ua)
        return al.Alignment(uas, self, disorder=costs[k])
    return contract


def harness(cfg, ns):
    co, al, Segment = ns.co, ns.al, ns.Segment
    if cfg.get("kind") == "dispatch":
        def hd(ctx):
            rz = lambda m: dict(kind="dispatch")       # noqa: E731
            calls = []
            saved = (co.Continuum.get_best_alignment, co.Continuum.get_fast_alignment)
            co.Continuum.get_best_alignment = lambda self, d: calls.append(("best",)) or "B"
            co.Continuum.get_fast_alignment = lambda self, d, w: calls.append(("fast", w)) or "F"
            try:
                c = co.Continuum()
                c.add("a", Segment(0, 1), "x")
                r1 = co._compute_fast_alignment_job("D", c)
                c.best_window_size = 3
                r2 = co._compute_fast_alignment_job("D", c)
                flushed = c.copy_flush()
                cp = c.copy()
            finally:
                co.Continuum.get_best_alignment, co.Continuum.get_fast_alignment = saved
            return [Obl("exact-algorithm-iff-window-size-is-inf", r1 == "B" and r2 == "F" and calls == [("best",), ("fast", 3)], rz),
                    Obl("samples-inherit-the-window-size", flushed.best_window_size == 3 and cp.best_window_size == 3, rz)]
        return hd
    sizes, w = tuple(cfg["sizes"]), cfg["w"]
    n = len(sizes)
    all_covers = common.exact_covers(sizes)

    def h(ctx):
        de = ctx.fresh("de")
        ctx.solver.add(de.e > 0)
        c, info = common.build_continuum(ns, ctx, sizes, coords="sym", labels="unique", min_dur=1, ordered=("weak" if cfg.get("ties") else True))
        D, table = common.make_abstract_dissim(ns, ctx, de, c.categories)
        inputs = [de] + [v[k] for v in info.values() for k in ("start", "end")]
        ctx.notes["inputs"] = inputs
        ctx.notes["scales"] = [de]

        def rz(m):
            return dict(kind="fast", warm=bool(cfg.get("warm")), sizes=list(sizes), w=w, de=common.frs(mval(m, de)),
                        units=[[ANN[a], common.frs(mval(m, v["start"])), common.frs(mval(m, v["end"])), v["label"]] for (a, j), v in sorted(info.items())],
                        annotators=[ANN[a] for a in range(n)],
                        pairs={f"{i},{j}": common.frs(mval(m, v)) for (i, j), v in table.D.items()})
        ctx.notes["realize"] = rz
        calls = [0]
        progress = []
        orig_w, orig_b = co.Continuum.get_first_window, co.Continuum.get_best_alignment

        def spy(self, d, w_):
            calls[0] += 1
            progress.append(self.num_units)
            if calls[0] > sum(sizes) + 1 or (len(progress) >= 2 and progress[-1] >= progress[-2]):
                raise Stall()
            return orig_w(self, d, w_)
        co.Continuum.get_first_window = spy
        co.Continuum.get_best_alignment = contract_best_alignment(ns, ctx, table)
        snapshot_before = None
        try:
            if cfg.get("warm"):
                # history on the same continuum / dissimilarity objects: a fast alignment with one more unit, that unit removed, again
                # (inside the try: the spies are uninstalled even if this path is abandoned here)
                extra = (ANN[0], Segment(core.const(2000), core.const(2005)), "c999")
                c.add(*extra)
                try:
                    c.get_fast_alignment(D, w)
                except Stall:
                    raise core.PathAbort()
                calls[0] = 0
                del progress[:]
                c.remove(extra[0], co.Unit(extra[1], extra[2]))
            snapshot_before = [(a, u.segment.start, u.segment.end, u.annotation) for a, u in c]
            try:
                fast = c.get_fast_alignment(D, w)
            except Stall:
                ctx.notes["inputs"] = inputs + list(table.D.values())
                return [Obl("every-iteration-removes-a-unit(terminates)", False, rz)]
        finally:
            co.Continuum.get_first_window, co.Continuum.get_best_alignment = orig_w, orig_b
        ctx.notes["inputs"] = inputs + list(table.D.values())
        obls = [Obl("every-iteration-removes-a-unit(terminates)", True, rz)]
        # validity
        unit_lists = [list(c._annotations[ANN[a]]) for a in range(n)]
        count = {(a, j): 0 for a in range(n) for j in range(sizes[a])}
        tuples = []
        ok = True
        for ua in fast.unitary_alignments:
            names = [a for a, _ in ua.n_tuple]
            if names != [ANN[a] for a in range(n)]:
                ok = False
                continue
            t = []
            for a, (_, u) in enumerate(ua.n_tuple):
                if u is None:
                    t.append(sizes[a])
                    continue
                k = None
                for j, v in enumerate(unit_lists[a]):
                    if v is u or (z3.is_true(z3.simplify(z3.And(lift(v.segment.start) == lift(u.segment.start), lift(v.segment.end) == lift(u.segment.end))))
                                  and v.annotation == u.annotation):
                        k = j
                if k is None:
                    ok = False
                    t.append(None)
                else:
                    count[(a, k)] += 1
                    t.append(k)
            tuples.append(tuple(t))
            obls.append(Obl("has-a-real-unit", any(u is not None for _, u in ua.n_tuple), rz))
        obls.append(Obl("well-formed-over-own-units", ok, rz))
        obls.append(Obl("each-unit-exactly-once", all(v == 1 for v in count.values()), rz))
        obls.append(Obl("input-continuum-unchanged", [(a, u.segment.start, u.segment.end, u.annotation) for a, u in c] == snapshot_before, rz))
        if ok and all(v == 1 for v in count.values()):
            def pair(x, y):
                return table.val(info[x]["uid"], info[y]["uid"])
            want = common.alignment_cost(tuples, sizes, de, pair)
            obls.append(Obl("reported-disorder==definition-on-its-units", core.approx(fast.disorder, want, want), rz))
            tot = 0
            for ua in fast.unitary_alignments:
                tot = tot + ua.disorder
            obls.append(Obl("reported-disorder==sum(carried)/original-mean-units", core.approx(fast.disorder, tot / Fraction(sum(sizes), n), want), rz))
            costs = [common.alignment_cost(cov, sizes, de, pair) for cov in all_covers]
            obls.append(Obl("never-better-than-optimal", SymBool(z3.Or(*[lift(cst) <= lift(fast.disorder) * (1 + Fraction(1, 10 ** 9)) for cst in costs])), rz))
            if w * n >= sum(sizes):
                for cst in costs:
                    obls.append(Obl("equals-optimum-when-window-covers-everything", core.approx_le(fast.disorder, cst, cst), rz))
        return obls
    return h


def replay(case):
    import numpy as np
    import pygamma_agreement as pa
    from sortedcontainers import SortedSet
    if case.get("kind") == "dispatch":
        return dict(reproduced=None, detail="structural")
    sizes = case["sizes"]
    de = float(Fraction(case["de"]))
    c = common.real_continuum(case)
    nunits = sum(sizes)
    labels = [common.uid_label(k) for k in range(nunits)] + (["c999"] if case.get("warm") else [])
    cats = SortedSet(labels)
    M = np.zeros((len(labels), len(labels)), dtype=np.float32)
    P = {}
    for key, v in case["pairs"].items():
        i, j = (int(x) for x in key.split(","))
        M[i, j] = M[j, i] = float(Fraction(v)) / de
        P[(i, j)] = P[(j, i)] = float(Fraction(v))
    D = pa.PrecomputedCategoricalDissimilarity(cats, M, delta_empty=de)
    if case.get("warm"):
        from pyannote.core import Segment
        ex = pa.Unit(Segment(2000.0, 2005.0), "c999")
        c.add(common.ANN[0], ex.segment, ex.annotation)
        c.get_fast_alignment(D, case["w"])
        c.remove(common.ANN[0], ex)
    before = [(a, u) for a, u in c]
    try:
        fast = c.get_fast_alignment(D, case["w"])
    except BaseException as ex:     # noqa: BLE001
        if type(ex).__name__ == "_Alarm":
            return dict(reproduced=True, timeout=True, detail=f"get_fast_alignment(window={case['w']}) did not return within the alarm")
        return dict(reproduced=True, detail="get_fast_alignment raised " + repr(ex)[:300])
    bad = []
    if [(a, u) for a, u in c] != before:
        bad.append(f"the input continuum was modified: {len(before)} units before, {c.num_units} after")
        c = common.real_continuum(case)
    seen = {}
    for ua in fast.unitary_alignments:
        for a, u in ua.n_tuple:
            if u is not None:
                seen[(a, u)] = seen.get((a, u), 0) + 1
                if u not in c._annotations[a]:
                    bad.append(f"foreign unit {a}:{u}")
    for a, u in c:
        if seen.get((a, u), 0) != 1:
            bad.append(f"unit {a}:{u} occurs {seen.get((a, u), 0)} times")
    best = c.get_best_alignment(D)
    if float(fast.disorder) < float(best.disorder) - 1e-5 * max(1, float(best.disorder)):
        bad.append(f"fast disorder {fast.disorder} below the optimum {best.disorder}")
    if case["w"] * len(sizes) >= nunits and abs(float(fast.disorder) - float(best.disorder)) > 1e-5 * max(1, float(best.disorder)):
        bad.append(f"window covers everything but fast disorder {fast.disorder} != optimum {best.disorder}")
    rec = float(pa.Alignment(fast.unitary_alignments, c).compute_disorder(D))
    if abs(rec - float(fast.disorder)) > 1e-5 * max(1, rec):
        bad.append(f"reported disorder {fast.disorder} != recomputed {rec}")
    return dict(reproduced=bool(bad), detail="; ".join(bad[:3])[:500])
