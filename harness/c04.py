"""C04 -- built-in dissimilarities compute their documented formula in both forms (d_mat and d)."""
import itertools
from fractions import Fraction

import numpy as real_np
import z3

from symx import core
from symx.core import Obl, SymNum, SymBool, lift, lb, mval
from . import common
from .common import ANN

META = dict(
    level="model_checking",
    technique="solver queries (z3, nonlinear real arithmetic + ints) over the symbolically executed constructors, compiled closures (d_mat) and unit forms (d) of every dissimilarity class",
    design_ref="section 4 / C04",
    claim="For all real unit coordinates, delta_empty > 0, alpha, beta >= 0, all label patterns / supply orders / positions in the bound and symbolic "
          "category indices 0 <= c < K <= 300: the array form (run through the real _build_arrays_continuum and compile_d_mat closure) and the unit "
          "form d both equal the documented formula; each is symmetric, >= 0 and 0 on identical units; ordinal/numerical values are independent of "
          "the supply order of labels and of the number of categories; the combined value uses the one delta_empty given to the combined object for "
          "default and for supplied components. Loop-free formulas are decided for all reals (no size bound).",
    trusted="z3 (nlsat); real arithmetic instead of float32 (stated); int8 casts modelled as two's-complement wrap + numpy negative-index wrap; "
            "symbolic build validated against the real build on concrete inputs every run",
    bounds=dict(quick="(three forms per pair: d_mat on continuum arrays, d on units, compute_disorder on alignment arrays) label sets <= 3 (all supply orders), strings <= 2 symbolic characters, K <= 300 symbolic, 2 units",
                thorough="label sets <= 4, strings <= 3 symbolic characters"),
    outside="float32 rounding of the values; label sets > 4; strings > 3 characters; numba's behaviour on out-of-range indices (reported as a violation of "
            "'in-bounds' rather than modelled)",
    stubs=["numba.njit = identity", "np float arrays = object arrays of z3 reals", "np.int8(x) = ((x+128) mod 256) - 128",
           "precomputed matrix of symbolic size K = uninterpreted symmetric zero-diagonal function M(i,j)"],
    assumptions=["delta_empty > 0, alpha >= 0, beta >= 0", "segments longer than SEGMENT_PRECISION",
                 "category matrices symmetric with zero diagonal (what check_if_dissim probes)"],
    cfg_budget_s=dict(quick=200, thorough=900),
)

LABEL_PATTERNS = [("x", "x"), ("x", "y"), (None, None), (None, "x"), ("", None), ("", "x"), ("", "")]


def configs(tier):
    out = []
    for lp in LABEL_PATTERNS[:2]:
        out.append(dict(key=f"positional,labels={lp}", sub="positional", labels=list(lp), cost=30))
    for lp in LABEL_PATTERNS:
        out.append(dict(key=f"absolute,labels={lp}", sub="absolute", labels=list(lp), cost=5))
    out.append(dict(key="precomputed,K<=300", sub="precomputed_K", cost=20))
    out.append(dict(key="precomputed,3-labels", sub="precomputed_d", nlab=3, cost=20))
    nl = 3 if tier == "quick" else 4
    for n in range(2, nl + 1):
        base = ["a", "b", "c", "d"][:n]
        for perm in itertools.permutations(base):
            out.append(dict(key=f"ordinal,supply-order={''.join(perm)}", sub="ordinal", labels=list(perm), cost=10 * n))
    out.append(dict(key="ordinal,default-positions,cba", sub="ordinal", labels=["c", "b", "a"], default_p=True, cost=10))
    for labs in (["10", "9", "2.5"], ["1", "2", "3"], ["-1", "100", "20", "3"][: (3 if tier == "quick" else 4)]):
        out.append(dict(key=f"numerical,labels={labs}", sub="numerical", labels=labs, cost=10))
    lmax = 2 if tier == "quick" else 3
    for l1 in range(0, lmax + 1):
        for l2 in range(l1, lmax + 1):
            if l1 + l2 == 0:
                continue
            out.append(dict(key=f"levenshtein,len={l1},{l2}", sub="levenshtein", l1=l1, l2=l2, cost=4 ** (l1 + l2)))
    out.append(dict(key="levenshtein-class,labels=ab,b,abc", sub="levenshtein_class", labels=["ab", "b", "abc"], cost=20))
    for comp in ["default", "same-delta", "other-delta", "ordinal-cat"]:
        for lp in [("x", "y"), ("x", "x")]:
            out.append(dict(key=f"combined,{comp},labels={lp}", sub="combined", comp=comp, labels=list(lp), cost=60))
    out.append(dict(key="combined,default,labels=(None, 'x')", sub="combined", comp="default", labels=[None, "x"], cost=60))
    # histories on ONE dissimilarity object: used on a continuum, the continuum gains a unit whose new label sorts between the
    # existing ones (its category set changes in place), used again; then used on another continuum
    for dname in ("absolute", "combined"):
        out.append(dict(key=f"{dname},object-reused-after-the-continuum-gained-a-category", sub="reuse", dissim=dname, cost=80))
    return out


# ---------------------------------------------------------------------------------------------
def two_units(ns, ctx, labels, same=False):
    """a continuum with one unit per annotator, symbolic coordinates; returns continuum, info"""
    c, info = common.build_continuum(ns, ctx, (1, 1), coords="sym", labels=labels)
    return c, info


def arrays_of(D, c):
    ua = D._build_arrays_continuum(c)
    return ua[0][0], ua[1][0]


def units_of(c):
    return [list(c._annotations[a])[0] for a in (ANN[0], ANN[1])]


def alignment_form(ns, D, u1, u2):
    """third form: the value through the alignment-shaped arrays (compute_disorder of the two-unit unitary alignment; one pair, so the mean is the pair value)"""
    return ns.al.UnitaryAlignment([(ANN[0], u1), (ANN[1], u2)]).compute_disorder(D)


def sym_props(name, dm, dd, a1, a2, u1, u2, rz, nonneg_assume=True):
    o = []
    o.append(Obl(f"{name}:d_mat-symmetric", core.eq(dm(a1, a2), dm(a2, a1)), rz))
    o.append(Obl(f"{name}:d-symmetric", core.eq(dd(u1, u2), dd(u2, u1)), rz))
    o.append(Obl(f"{name}:d_mat>=0", SymBool(lift(dm(a1, a2)) >= 0), rz))
    o.append(Obl(f"{name}:d>=0", SymBool(lift(dd(u1, u2)) >= 0), rz))
    o.append(Obl(f"{name}:d_mat(u,u)==0", core.eq(dm(a1, a1), 0), rz))
    o.append(Obl(f"{name}:d(u,u)==0", core.eq(dd(u1, u1), 0), rz))
    return o


class SymMatrix:
    """K x K matrix of reals with symbolic K; entries are an uninterpreted function; numpy-style
    negative-index wrap; out-of-range accesses are recorded (numba does no bounds check)."""

    def __init__(self, K, ctx):
        self.K = K
        self.f = z3.Function("M", z3.IntSort(), z3.IntSort(), z3.RealSort())
        self.shape = (K, K)
        self.oob = []
        i, j = z3.Ints("i j")
        ctx.solver.add(z3.ForAll([i, j], self.f(i, j) == self.f(j, i)), z3.ForAll([i], self.f(i, i) == 0),
                       z3.ForAll([i, j], self.f(i, j) >= 0))

    def __getitem__(self, ij):
        i, j = ij
        K = z3.ToInt(lift(self.K))

        def norm(x):
            xe = z3.ToInt(lift(x))
            w = z3.If(xe < 0, xe + K, xe)
            self.oob.append(z3.Or(w < 0, w >= K))
            return w
        return SymNum(self.f(norm(i), norm(j)))


def harness(cfg, ns):
    sub = cfg["sub"]
    ds = ns.ds
    Unit, Segment = ns.co.Unit, ns.Segment

    def h(ctx):
        de = ctx.fresh("de")
        ctx.solver.add(de.e > 0)
        inputs = [de]
        E = dict(cfg=cfg, de=de)

        def rz(m):
            case = dict(kind=sub, cfg={k: v for k, v in cfg.items() if k not in ("key", "cost")}, de=common.frs(mval(m, de)))
            for k, v in E.items():
                if isinstance(v, SymNum):
                    case[k] = common.frs(mval(m, v))
                elif isinstance(v, list) and v and all(isinstance(x, (SymNum, int, float)) for x in v):
                    case[k] = [common.frs(mval(m, x)) for x in v]
            if "info" in E:
                case["units"] = [[ANN[a], common.frs(mval(m, v["start"])), common.frs(mval(m, v["end"])), v["label"]]
                                 for (a, j), v in sorted(E["info"].items())]
            return case

        ctx.notes["realize"] = rz
        obls = []
        if sub == "positional":
            c, info = two_units(ns, ctx, cfg["labels"])
            E["info"] = info
            D = ds.PositionalSporadicDissimilarity(delta_empty=de)
            a1, a2 = arrays_of(D, c)
            u1, u2 = units_of(c)
            want = common.pos_formula((info[(0, 0)]["start"], info[(0, 0)]["end"]), (info[(1, 0)]["start"], info[(1, 0)]["end"]), de)
            obls.append(Obl("positional:d_mat==formula", core.eq(D.d_mat(a1, a2), want), rz))
            obls.append(Obl("positional:d==formula", core.eq(D.d(u1, u2), want), rz))
            obls.append(Obl("positional:alignment-form(compute_disorder)==d", core.eq(alignment_form(ns, D, u1, u2), D.d(u1, u2)), rz))
            obls += sym_props("positional", D.d_mat, D.d, a1, a2, u1, u2, rz)
        elif sub == "absolute":
            c, info = two_units(ns, ctx, cfg["labels"])
            E["info"] = info
            D = ds.AbsoluteCategoricalDissimilarity(delta_empty=de)
            a1, a2 = arrays_of(D, c)
            u1, u2 = units_of(c)
            want = de if cfg["labels"][0] != cfg["labels"][1] else 0
            obls.append(Obl("absolute:d_mat==formula", core.eq(D.d_mat(a1, a2), want), rz))
            obls.append(Obl("absolute:d==formula", core.eq(D.d(u1, u2), want), rz))
            obls.append(Obl("absolute:alignment-form(compute_disorder)==d", core.eq(alignment_form(ns, D, u1, u2), D.d(u1, u2)), rz))
            obls += sym_props("absolute", D.d_mat, D.d, a1, a2, u1, u2, rz)
        elif sub == "precomputed_K":
            K = ctx.fresh("K", lo=1, hi=300, integer=True)
            c1 = ctx.fresh("c1", lo=0, integer=True)
            c2 = ctx.fresh("c2", lo=0, integer=True)
            ctx.solver.add(c1.e < K.e, c2.e < K.e)
            E.update(K=K, c1=c1, c2=c2)
            M = SymMatrix(K, ctx)
            D = ds.PrecomputedCategoricalDissimilarity.__new__(ds.PrecomputedCategoricalDissimilarity)
            D._matrix = M
            D.delta_empty = de
            D.categories = None
            d_mat = D.compile_d_mat()
            u1 = [ctx.fresh("s1"), ctx.fresh("e1"), ctx.fresh("l1"), c1]
            u2 = [ctx.fresh("s2"), ctx.fresh("e2"), ctx.fresh("l2"), c2]
            got = d_mat(u1, u2)
            want = SymNum(M.f(z3.ToInt(c1.e), z3.ToInt(c2.e))) * de
            obls.append(Obl("precomputed:index-in-bounds", SymBool(z3.Not(z3.Or(*M.oob))), rz))
            obls.append(Obl("precomputed:d_mat==matrix-entry*delta", core.eq(got, want), rz))
        elif sub == "precomputed_d":
            from sortedcontainers import SortedSet
            labs = ["a", "b", "c"][:cfg["nlab"]]
            n = len(labs)
            M = real_np.empty((n, n), dtype=object)
            ms = {}
            for i in range(n):
                for j in range(i + 1):
                    v = 0 if i == j else ctx.fresh(f"m{i}{j}", lo=0)
                    M[i, j] = M[j, i] = v
            D = ds.PrecomputedCategoricalDissimilarity(SortedSet(labs), M, delta_empty=de)
            for i in range(n):
                for j in range(n):
                    c = ns.co.Continuum()
                    c.add(ANN[0], Segment(0, 1), labs[i])
                    c.add(ANN[1], Segment(2, 5), labs[j])
                    a1, a2 = arrays_of(D, c)
                    u1, u2 = units_of(c)
                    obls.append(Obl("precomputed:d_mat==matrix-entry*delta", core.eq(D.d_mat(a1, a2), M[i, j] * de), rz))
                    obls.append(Obl("precomputed:d==matrix-entry*delta", core.eq(D.d(u1, u2), M[i, j] * de), rz))
        elif sub in ("ordinal", "numerical"):
            labs = cfg["labels"]
            n = len(labs)
            if sub == "ordinal":
                if cfg.get("default_p"):
                    p = None
                    pos = {lab: k for k, lab in enumerate(labs)}
                    D = ds.OrdinalCategoricalDissimilarity(labs, delta_empty=de)
                else:
                    p = [ctx.fresh(f"p_{lab}_") for lab in labs]
                    E["p"] = p
                    pos = dict(zip(labs, p))
                    D = ds.OrdinalCategoricalDissimilarity(labs, p, delta_empty=de)
            else:
                pos = {lab: Fraction(lab) for lab in labs}
                D = ds.NumericalCategoricalDissimilarity(labs, delta_empty=de)
            mx = 1
            for x in labs:
                for y in labs:
                    mx = core.s_max(mx, abs(pos[x] - pos[y]))
            for x in labs:
                for y in labs:
                    c = ns.co.Continuum()
                    c.add(ANN[0], Segment(0, 1), x)
                    c.add(ANN[1], Segment(2, 5), y)
                    a1, a2 = arrays_of(D, c)
                    u1, u2 = units_of(c)
                    want = abs(pos[x] - pos[y]) / mx * de
                    obls.append(Obl(f"{sub}:d_mat==|pa-pb|/max*delta[{x},{y}]", core.approx(D.d_mat(a1, a2), want, de), rz))
                    obls.append(Obl(f"{sub}:d==|pa-pb|/max*delta[{x},{y}]", core.approx(D.d(u1, u2), want, de), rz))
        elif sub == "levenshtein":
            l1, l2 = cfg["l1"], cfg["l2"]
            s1 = [ctx.fresh(f"ch1_{i}_", integer=True) for i in range(l1)]
            s2 = [ctx.fresh(f"ch2_{i}_", integer=True) for i in range(l2)]
            E["s1"], E["s2"] = s1, s2
            ns.np.int_as_object = True
            try:
                got = ds.LevenshteinCategoricalDissimilarity.levenshtein(s1, s2)
                got_r = ds.LevenshteinCategoricalDissimilarity.levenshtein(s2, s1)
                got_same = ds.LevenshteinCategoricalDissimilarity.levenshtein(s1, list(s1))
            finally:
                ns.np.int_as_object = False

            def ref(i, j):   # recursive definition of the edit distance between s1[:i] and s2[:j]
                if i == 0:
                    return j
                if j == 0:
                    return i
                cost = core.ite(s1[i - 1] != s2[j - 1], 1, 0)
                return core.s_min(ref(i - 1, j) + 1, ref(i, j - 1) + 1, ref(i - 1, j - 1) + cost)
            dist = ref(l1, l2)
            denom = max(l1, l2) + 1
            obls.append(Obl("levenshtein:value==edit-distance/(max-len+1)", core.approx(got, dist / denom if isinstance(dist, SymNum) else Fraction(dist, denom)), rz))
            obls.append(Obl("levenshtein:symmetric", core.eq(got, got_r), rz))
            obls.append(Obl("levenshtein:zero-on-identical", core.eq(got_same, 0), rz))
            obls.append(Obl("levenshtein:in[0,1)", SymBool(z3.And(lift(got) >= 0, lift(got) < 1)), rz))
        elif sub == "levenshtein_class":
            labs = cfg["labels"]
            D = ds.LevenshteinCategoricalDissimilarity(labs, delta_empty=de)

            def lev(a, b):
                import functools

                @functools.lru_cache(None)
                def r(i, j):
                    if i == 0 or j == 0:
                        return i + j
                    return min(r(i - 1, j) + 1, r(i, j - 1) + 1, r(i - 1, j - 1) + (a[i - 1] != b[j - 1]))
                return Fraction(r(len(a), len(b)), max(len(a), len(b)) + 1)
            mx = max([Fraction(1)] + [lev(a, b) for a in labs for b in labs])
            for x in labs:
                for y in labs:
                    c = ns.co.Continuum()
                    c.add(ANN[0], Segment(0, 1), x)
                    c.add(ANN[1], Segment(2, 5), y)
                    a1, a2 = arrays_of(D, c)
                    u1, u2 = units_of(c)
                    want = lev(x, y) / mx * de
                    obls.append(Obl(f"levenshtein:d_mat==lev/max*delta[{x},{y}]", core.approx(D.d_mat(a1, a2), want, de), rz))
                    obls.append(Obl(f"levenshtein:d==lev/max*delta[{x},{y}]", core.approx(D.d(u1, u2), want, de), rz))
        elif sub == "combined":
            alpha, beta = ctx.fresh("alpha", lo=0), ctx.fresh("beta", lo=0)
            E.update(alpha=alpha, beta=beta)
            comp = cfg["comp"]
            c, info = two_units(ns, ctx, cfg["labels"])
            E["info"] = info
            catval = (1 if cfg["labels"][0] != cfg["labels"][1] else 0)
            if comp == "default":
                D = ds.CombinedCategoricalDissimilarity(alpha=alpha, beta=beta, delta_empty=de)
            elif comp == "same-delta":
                D = ds.CombinedCategoricalDissimilarity(alpha=alpha, beta=beta, delta_empty=de,
                                                        pos_dissim=ds.PositionalSporadicDissimilarity(de),
                                                        cat_dissim=ds.AbsoluteCategoricalDissimilarity(de))
            elif comp == "other-delta":
                de2 = ctx.fresh("de_component")
                ctx.solver.add(de2.e > 0)
                E["de2"] = de2
                D = ds.CombinedCategoricalDissimilarity(alpha=alpha, beta=beta, delta_empty=de,
                                                        pos_dissim=ds.PositionalSporadicDissimilarity(de2),
                                                        cat_dissim=ds.AbsoluteCategoricalDissimilarity(de2))
            else:
                de2 = ctx.fresh("de_component")
                ctx.solver.add(de2.e > 0)
                E["de2"] = de2
                D = ds.CombinedCategoricalDissimilarity(alpha=alpha, beta=beta, delta_empty=de,
                                                        cat_dissim=ds.OrdinalCategoricalDissimilarity(["x", "y", "z"], [0, 1, 4], delta_empty=de2))
                catval = Fraction(1, 4) if cfg["labels"][0] != cfg["labels"][1] else 0
            a1, a2 = arrays_of(D, c)
            u1, u2 = units_of(c)
            pos = common.pos_formula((info[(0, 0)]["start"], info[(0, 0)]["end"]), (info[(1, 0)]["start"], info[(1, 0)]["end"]), de)
            want = alpha * pos + beta * (catval * de)
            cmp = core.approx if comp == "ordinal-cat" else (lambda a, b, s_: core.eq(a, b))
            obls.append(Obl("combined:d_mat==alpha*pos+beta*cat(one delta)", cmp(D.d_mat(a1, a2), want, beta * de), rz))
            obls.append(Obl("combined:d==alpha*pos+beta*cat(one delta)", cmp(D.d(u1, u2), want, beta * de), rz))
            obls.append(Obl("combined:d_mat==d", core.eq(D.d_mat(a1, a2), D.d(u1, u2)), rz))
            obls.append(Obl("combined:alignment-form(compute_disorder)==d", core.eq(alignment_form(ns, D, u1, u2), D.d(u1, u2)), rz))
            obls += sym_props("combined", D.d_mat, D.d, a1, a2, u1, u2, rz)
        elif sub == "reuse":
            alpha, beta = ctx.fresh("alpha", lo=0), ctx.fresh("beta", lo=0)
            E.update(alpha=alpha, beta=beta)
            D = ds.AbsoluteCategoricalDissimilarity(delta_empty=de) if cfg["dissim"] == "absolute" else \
                ds.CombinedCategoricalDissimilarity(alpha=alpha, beta=beta, delta_empty=de)
            SEGS = {"a": (0, 4), "c": (1, 5), "b": (2, 7), "d": (3, 5)}

            def check_all(c, tag):
                ua = D._build_arrays_continuum(c)
                names = list(c._annotations.keys())
                for i, u in enumerate(c._annotations[names[0]]):
                    for j, v in enumerate(c._annotations[names[1]]):
                        cat = de if u.annotation != v.annotation else 0
                        if cfg["dissim"] == "absolute":
                            want = cat
                        else:
                            want = alpha * common.pos_formula((u.segment.start, u.segment.end), (v.segment.start, v.segment.end), de) + beta * cat
                        obls.append(Obl(f"reuse[{tag}]: d_mat==formula", core.eq(D.d_mat(ua[0][i], ua[1][j]), want), rz))
                        obls.append(Obl(f"reuse[{tag}]: d==formula", core.eq(D.d(u, v), want), rz))
            c = ns.co.Continuum()
            c.add(ANN[0], Segment(*SEGS["a"]), "a")
            c.add(ANN[1], Segment(*SEGS["c"]), "c")
            check_all(c, "first use")
            c.add(ANN[0], Segment(*SEGS["b"]), "b")            # 'b' sorts between 'a' and 'c': every index after it shifts
            check_all(c, "same continuum, one more category")
            c2 = ns.co.Continuum()
            c2.add(ANN[0], Segment(*SEGS["b"]), "b")
            c2.add(ANN[0], Segment(*SEGS["d"]), "d")
            c2.add(ANN[1], Segment(*SEGS["c"]), "c")
            check_all(c2, "another continuum, overlapping labels")
        else:
            raise ValueError(sub)
        ctx.notes["inputs"] = [v for v in E.values() if isinstance(v, SymNum)] + [x for v in E.values() if isinstance(v, list) for x in v if isinstance(x, SymNum)] \
            + [v[k] for v in E.get("info", {}).values() for k in ("start", "end") if isinstance(v[k], SymNum)]
        ctx.notes["scales"] = [E[k] for k in ("de", "de2", "alpha", "beta") if k in E]
        return obls
    return h


# ---------------------------------------------------------------------------------------------
# real build
# ---------------------------------------------------------------------------------------------
def _F(x):
    return float(Fraction(x))


def replay(case):
    import numpy as np
    import pygamma_agreement as pa
    from pyannote.core import Segment
    from sortedcontainers import SortedSet
    kind, cfg = case["kind"], case["cfg"]
    de = _F(case["de"])
    bad = []

    def both(D, c):
        ua = D._build_arrays_continuum(c)
        u = [list(c._annotations[a])[0] for a in c.annotators]
        return float(D.d_mat(ua[0][0], ua[1][0])), float(D.d(u[0], u[1]))

    def close(a, b):
        return abs(a - b) <= 1e-4 * max(abs(a), abs(b)) + 1e-9

    def pos(units):
        (_, s1, e1, _), (_, s2, e2, _) = units
        s1, e1, s2, e2 = _F(s1), _F(e1), _F(s2), _F(e2)
        r = (abs(s1 - s2) + abs(e1 - e2)) / ((e1 - s1) + (e2 - s2))
        return r * r * de
    try:
        if kind in ("positional", "absolute", "combined"):
            c = common.real_continuum(dict(units=case["units"], annotators=[ANN[0], ANN[1]]))
            labs = [u[3] for u in case["units"]]
            if kind == "positional":
                D = pa.PositionalSporadicDissimilarity(delta_empty=de)
                want = pos(case["units"])
            elif kind == "absolute":
                D = pa.AbsoluteCategoricalDissimilarity(delta_empty=de)
                want = de * (labs[0] != labs[1])
            else:
                al, be = _F(case["alpha"]), _F(case["beta"])
                comp = cfg["comp"]
                catval = float(labs[0] != labs[1])
                if comp == "default":
                    D = pa.CombinedCategoricalDissimilarity(alpha=al, beta=be, delta_empty=de)
                elif comp == "same-delta":
                    D = pa.CombinedCategoricalDissimilarity(alpha=al, beta=be, delta_empty=de, pos_dissim=pa.PositionalSporadicDissimilarity(de),
                                                            cat_dissim=pa.AbsoluteCategoricalDissimilarity(de))
                elif comp == "other-delta":
                    de2 = _F(case["de2"])
                    D = pa.CombinedCategoricalDissimilarity(alpha=al, beta=be, delta_empty=de, pos_dissim=pa.PositionalSporadicDissimilarity(de2),
                                                            cat_dissim=pa.AbsoluteCategoricalDissimilarity(de2))
                else:
                    de2 = _F(case["de2"])
                    D = pa.CombinedCategoricalDissimilarity(alpha=al, beta=be, delta_empty=de,
                                                            cat_dissim=pa.OrdinalCategoricalDissimilarity(["x", "y", "z"], [0, 1, 4], delta_empty=de2))
                    catval = 0.25 * (labs[0] != labs[1])
                want = al * pos(case["units"]) + be * catval * de
            dm, dd = both(D, c)
            if not close(dm, want):
                bad.append(f"d_mat={dm} documented={want}")
            if not close(dd, want):
                bad.append(f"d={dd} documented={want}")
            from pygamma_agreement.alignment import UnitaryAlignment
            uu = [list(c._annotations[a])[0] for a in c.annotators]
            af = float(UnitaryAlignment([(ANN[0], uu[0]), (ANN[1], uu[1])]).compute_disorder(D))
            if not close(af, dd):
                bad.append(f"alignment form (compute_disorder) = {af}, d = {dd}")
        elif kind == "precomputed_K":
            K, c1, c2 = int(_F(case["K"])), int(_F(case["c1"])), int(_F(case["c2"]))
            labs = [f"c{k:04d}" for k in range(K)]
            M = np.zeros((K, K), dtype=np.float32)
            for i in range(K):
                for j in range(i):
                    M[i, j] = M[j, i] = ((i * 31 + j * 17) % 97 + 1) / 97
            D = pa.PrecomputedCategoricalDissimilarity(SortedSet(labs), M, delta_empty=de)
            c = pa.Continuum()
            c.add(ANN[0], Segment(0, 1), labs[c1])
            c.add(ANN[1], Segment(2, 5), labs[c2])
            dm, dd = both(D, c)
            want = float(M[c1, c2]) * de
            if not close(dm, want):
                bad.append(f"K={K} categories {c1},{c2}: d_mat={dm} documented={want} (d={dd})")
        elif kind in ("ordinal", "numerical"):
            labs = cfg["labels"]
            if kind == "ordinal":
                p = None if cfg.get("default_p") else [_F(x) for x in case["p"]]
                D = pa.OrdinalCategoricalDissimilarity(labs, p, delta_empty=de)
                posd = dict(zip(labs, p if p is not None else range(len(labs))))
            else:
                D = pa.NumericalCategoricalDissimilarity(labs, delta_empty=de)
                posd = {x: float(x) for x in labs}
            mx = max([1.0] + [abs(posd[x] - posd[y]) for x in labs for y in labs])
            for x in labs:
                for y in labs:
                    c = pa.Continuum()
                    c.add(ANN[0], Segment(0, 1), x)
                    c.add(ANN[1], Segment(2, 5), y)
                    dm, dd = both(D, c)
                    want = abs(posd[x] - posd[y]) / mx * de
                    if not close(dm, want) or not close(dd, want):
                        bad.append(f"({x},{y}): d_mat={dm} d={dd} documented={want}")
        elif kind == "reuse":
            al, be = _F(case["alpha"]), _F(case["beta"])
            D = pa.AbsoluteCategoricalDissimilarity(delta_empty=de) if cfg["dissim"] == "absolute" else pa.CombinedCategoricalDissimilarity(alpha=al, beta=be, delta_empty=de)
            SEGS = {"a": (0, 4), "c": (1, 5), "b": (2, 7), "d": (3, 5)}

            def check_all(c, tag):
                ua = D._build_arrays_continuum(c)
                names = list(c.annotators)
                for i, u in enumerate(c._annotations[names[0]]):
                    for j, v in enumerate(c._annotations[names[1]]):
                        cat = de * (u.annotation != v.annotation)
                        if cfg["dissim"] == "absolute":
                            want = cat
                        else:
                            r = (abs(u.segment.start - v.segment.start) + abs(u.segment.end - v.segment.end)) / (u.segment.duration + v.segment.duration)
                            want = al * r * r * de + be * cat
                        dm, dd = float(D.d_mat(ua[0][i], ua[1][j])), float(D.d(u, v))
                        if not close(dm, want) or not close(dd, want):
                            bad.append(f"{tag}: ({u.annotation},{v.annotation}) d_mat={dm} d={dd} documented={want}")
            c = pa.Continuum()
            c.add(ANN[0], Segment(*SEGS["a"]), "a")
            c.add(ANN[1], Segment(*SEGS["c"]), "c")
            check_all(c, "first use")
            c.add(ANN[0], Segment(*SEGS["b"]), "b")
            check_all(c, "same continuum, one more category")
            c2 = pa.Continuum()
            c2.add(ANN[0], Segment(*SEGS["b"]), "b")
            c2.add(ANN[0], Segment(*SEGS["d"]), "d")
            c2.add(ANN[1], Segment(*SEGS["c"]), "c")
            check_all(c2, "another continuum, overlapping labels")
        elif kind == "precomputed_d":
            return dict(reproduced=None, detail="no realiser for symbolic matrices")
        elif kind in ("levenshtein", "levenshtein_class"):
            if kind == "levenshtein":
                def mk(chs):
                    return "".join(chr(97 + int(_F(x)) % 26) if 0 <= int(_F(x)) < 10 ** 6 else "?" for x in chs)
                # distinct symbolic code points -> distinct letters
                codes = sorted({int(_F(x)) for x in case.get("s1", []) + case.get("s2", [])})
                m = {cp: chr(97 + k) for k, cp in enumerate(codes)}
                a = "".join(m[int(_F(x))] for x in case.get("s1", []))
                b = "".join(m[int(_F(x))] for x in case.get("s2", []))
                labs = [a, b]
            else:
                labs = cfg["labels"]
            import functools

            def lev(a, b):
                @functools.lru_cache(None)
                def r(i, j):
                    if i == 0 or j == 0:
                        return i + j
                    return min(r(i - 1, j) + 1, r(i, j - 1) + 1, r(i - 1, j - 1) + (a[i - 1] != b[j - 1]))
                return r(len(a), len(b)) / (max(len(a), len(b)) + 1)
            for x in labs:
                for y in labs:
                    got = float(pa.LevenshteinCategoricalDissimilarity.levenshtein(x, y))
                    if not close(got, lev(x, y)):
                        bad.append(f"levenshtein({x!r},{y!r})={got} expected {lev(x, y)}")
    except Exception as ex:     # noqa: BLE001
        return dict(reproduced=True, detail="real build raised " + repr(ex)[:300])
    return dict(reproduced=bool(bad), detail="; ".join(bad[:4]))
