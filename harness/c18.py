"""C18 -- file import / export are faithful (the repository's glue code; parsers are channel stubs)."""
import sys
import types
from fractions import Fraction

import z3

from symx import core
from symx.core import Obl, SymNum, SymBool, lift, lb, mval
from . import common

META = dict(
    level="model_checking",
    technique="bounded symbolic execution (z3) of Continuum.to_csv / from_csv / from_rttm / add_textgrid / add_elan with the file parsers replaced by in-memory channels carrying symbolic times",
    design_ref="section 4 / C18",
    claim="For all real start / end times and every row / interval / tier shape in the bound: from_csv(to_csv(c)) == c with equal categories through a "
          "channel that returns each written field as text t with float(t) = the written value; zero-length CSV rows are discarded when "
          "discard_invalid_rows is set and make from_csv raise ValueError otherwise; add_textgrid and add_elan create exactly one unit per interval "
          "with a non-empty mark of a selected tier (all tiers when none is selected), with the file's exact times, the mark or the tier name as "
          "label as requested, under the given annotator; from_rttm creates one unit per track with the file's uri as annotator. Only the "
          "repository's own code is covered.",
    trusted="the csv C module's quoting, repr/float text round-trip of floats, textgrid / pympi / pyannote.load_rttm parsers: C or third-party code the engine "
            "cannot encode; they are replaced by channels with the round-trip contract and are OUTSIDE the claim (delimiters, quotes, unicode are therefore not exercised)",
    bounds=dict(quick="<= 3 CSV rows incl. one zero-length row; TextGrid / ELAN: 2 tiers x <= 2 intervals (marks: plain, empty, blank-only, padded with blanks; CSV labels incl. a decomposed next to a precomposed spelling), every tier selection, both label modes; RTTM: 2 uris x <= 2 tracks",
                thorough="<= 4 rows, 3 tiers"),
    outside="the file formats themselves (quoting, delimiters inside fields, unicode, float text formatting) are not seen by the solver: the channel contract only "
            "holds if reader and writer get the same csv dialect parameters, which IS an obligation; in addition a concrete cross-check on the real build, run with every "
            "check, round-trips labels / annotator names with leading and trailing blanks, quotes, delimiters, tabs and unicode under four delimiters (a test, not part "
            "of the solver claim); duplicate tier names; intervals of different tiers with the same times and the same mark (one unit: the continuum is a set per annotator, C13)",
    stubs=["csv.writer / csv.reader / open = in-memory channel", "textgrid.TextGrid, pympi.Eaf, load_rttm = objects exposing symbolic tiers / tracks"],
    assumptions=["labelled units (an unlabelled unit is written as an empty field and read back as the label '')", "intervals of one tier do not overlap"],
    cfg_budget_s=dict(quick=200, thorough=900),
)


def configs(tier):
    out = []
    for sizes in [(1, 1), (2, 1)] + ([(2, 2)] if tier == "thorough" else []):
        for delim in (",", ";"):
            out.append(dict(key=f"csv-roundtrip,sizes={sizes},delimiter={delim!r}", kind="csv", sizes=list(sizes), delim=delim, cost=10 * sum(sizes) ** 2))
    for discard in (True, False):
        out.append(dict(key=f"csv-zero-length-row,discard={discard}", kind="csvzero", discard=discard, cost=10))
    ntiers = 2 if tier == "quick" else 3
    sels = [None, ["t0"], ["t1"], ["t0", "t1"], []]
    for fmt in ("textgrid", "elan"):
        for sel in sels:
            for use_tier in (False, True):
                out.append(dict(key=f"{fmt},selected={sel},tier-as-label={use_tier}", kind=fmt, sel=sel, use_tier=use_tier, ntiers=ntiers, cost=20))
    out.append(dict(key="rttm", kind="rttm", cost=10))
    return out


class Text:
    """a CSV field as read back from the file: text whose float() is the written value"""

    def __init__(self, v):
        self._num = v


def harness(cfg, ns):
    co, Segment = ns.co, ns.Segment
    kind = cfg["kind"]
    PREC = ns.pseg.SEGMENT_PRECISION

    class Channel:
        def __init__(self):
            self.files = {}
            self.opened = []
            self.dialects = []          # csv dialect parameters the code passed to writer / reader
            self.open_options = []      # keyword options of every open() of a csv file

    def install_csv(ch):
        saved = (co.csv, co.__dict__.get("open"), co.float)

        class FH:
            def __init__(self, path, mode):
                self.path, self.mode = str(path), mode
                if "w" in mode:
                    ch.files[self.path] = []

            def __enter__(self):
                return self

            def __exit__(self, *a):
                return False

            def __iter__(self):
                # iterating the handle yields the physical lines: one per stored row (a line holding a row is never blank; blank
                # lines INSIDE a quoted field are the business of the real-csv cross-check)
                for row in ch.files[self.path]:
                    yield Line(self, row)

        class Line:
            def __init__(self, fh, row):
                self.fh, self.row = fh, row

            def strip(self, *a):
                return "<row>"

            rstrip = lstrip = strip

            def __bool__(self):
                return True

            def __len__(self):
                return 5

        def fake_open(path, mode="r", *a, **k):
            ch.opened.append((str(path), mode))
            ch.open_options.append((str(path), mode, dict(k)))
            if "w" not in mode and str(path) not in ch.files:
                raise FileNotFoundError(str(path))
            return FH(path, mode)

        class W:
            def __init__(self, fh, delimiter=",", **dialect):
                self.fh, self.delimiter = fh, delimiter
                ch.files.setdefault(fh.path + "#delim", delimiter)
                ch.files[fh.path + "#delim"] = delimiter
                ch.dialects.append(("writer", dict(dialect, delimiter=delimiter)))

            def writerow(self, row):
                ch.files[self.fh.path].append(list(row))

            def writerows(self, rows):
                for r in rows:
                    self.writerow(r)

        def reader(src, delimiter=",", **dialect):
            ch.dialects.append(("reader", dict(dialect, delimiter=delimiter)))
            if isinstance(src, FH):
                fh, rows = src, list(ch.files[src.path])
            else:
                # any iterable of lines (a filtered / wrapped handle): the rows of the lines it lets through, in its order
                lines = list(src)
                if any(not isinstance(x, Line) for x in lines):
                    raise core.Unsupported("csv.reader fed with something else than the lines of an opened file")
                fh, rows = (lines[0].fh if lines else None), [x.row for x in lines]
            if fh is not None and ch.files.get(fh.path + "#delim", delimiter) != delimiter:
                raise core.Unsupported("file read with another delimiter than it was written with")
            for row in rows:
                # every field comes back as text: numbers as text whose float() is the value, None as ''
                yield [Text(x) if isinstance(x, (SymNum, int, float)) and not isinstance(x, bool) else ("" if x is None else str(x)) for x in row]
        stub = types.SimpleNamespace(writer=W, reader=reader)
        co.csv = stub
        co.open = fake_open
        real_float = co.float

        def fl(x=0.0):
            if isinstance(x, Text):
                return x._num
            return real_float(x)
        co.float = fl

        def undo():
            co.csv, co.float = saved[0], saved[2]
            if saved[1] is None:
                del co.open
            else:
                co.open = saved[1]
        return undo

    def h_csv(ctx):
        sizes = tuple(cfg["sizes"])
        # a precomposed and a decomposed spelling of one letter are two labels (a reader that normalises text merges them)
        labels = ["lab a", "e\u0301", "lab a", "\u00e9"][:sum(sizes)]
        c, info = common.build_continuum(ns, ctx, sizes, coords="sym", labels=labels, ordered=False)
        ctx.notes["inputs"] = [v[k] for v in info.values() for k in ("start", "end")]

        def rz(m):
            return dict(kind="csv", delim=cfg["delim"], units=[[common.ANN[a], common.frs(mval(m, v["start"])), common.frs(mval(m, v["end"])), v["label"]]
                                                              for (a, j), v in sorted(info.items())])
        ctx.notes["realize"] = rz
        ch = Channel()
        undo = install_csv(ch)
        try:
            c.to_csv("/virtual/out.csv", delimiter=cfg["delim"])
            rows = ch.files["/virtual/out.csv"]
            back = co.Continuum.from_csv("/virtual/out.csv", delimiter=cfg["delim"])
            eq1, eq2 = bool(back == c), bool(c == back)
        finally:
            undo()
        wd = [d_ for k_, d_ in ch.dialects if k_ == "writer"]
        rd = [d_ for k_, d_ in ch.dialects if k_ == "reader"]
        o = [Obl("reader-and-writer-use-the-same-csv-dialect(the channel's round-trip contract)", len(wd) == 1 and len(rd) == 1 and wd[0] == rd[0], rz),
             # the csv module only guarantees the round trip of fields holding line ends when the files are opened with newline=''
             # (demanded of the READING side only: that is where universal newlines rewrite a field on this platform)
             Obl("csv-file-read-with-newline=''(line ends inside fields are the csv module's business)",
                 any("w" not in md for _, md, _ in ch.open_options) and all(k.get("newline") == "" for _, md, k in ch.open_options if "w" not in md), rz),
             Obl("one-row-per-unit", len(rows) == c.num_units, rz),
             Obl("row==(annotator,label,start,end)", all(len(r) == 4 and isinstance(r[0], str) and (r[1] is None or isinstance(r[1], str)) for r in rows), rz),
             Obl("from_csv(to_csv(c))==c", eq1 and eq2, rz),
             Obl("same-categories", list(back.categories) == list(c.categories), rz),
             Obl("same-annotators", list(back.annotators) == list(c.annotators), rz)]
        for a in c.annotators:
            L1 = [(u.segment.start, u.segment.end, u.annotation) for u in c._annotations[a]]
            L2 = [(u.segment.start, u.segment.end, u.annotation) for u in back._annotations[a]] if a in back._annotations else []
            o.append(Obl("units-equal-by-value", SymBool(z3.And(z3.BoolVal(len(L1) == len(L2)), *[z3.And(lift(x[0]) == lift(y[0]), lift(x[1]) == lift(y[1]), z3.BoolVal(x[2] == y[2]))
                                                                                              for x, y in zip(L1, L2)])), rz))
        return o

    def h_csvzero(ctx):
        s0, e0, s1, e1 = (ctx.fresh(n) for n in ("s0", "e0", "s1", "e1"))
        ctx.solver.add(e0.e - s0.e > lift(PREC), e1.e - s1.e <= lift(PREC))
        ctx.notes["inputs"] = [s0, e0, s1, e1]
        rz = lambda m: dict(kind="csvzero", discard=cfg["discard"], rows=[["a", "x", common.frs(mval(m, s0)), common.frs(mval(m, e0))],     # noqa: E731
                                                                          ["a", "y", common.frs(mval(m, s1)), common.frs(mval(m, e1))],
                                                                          ["b", "x", common.frs(mval(m, s0)), common.frs(mval(m, e0))],
                                                                          ["c", "x", common.frs(mval(m, s1)), common.frs(mval(m, e1))]])
        ctx.notes["realize"] = rz
        ch = Channel()
        # the zero-length rows carry a label ('y') and an annotator ('c') that no valid row has: a discarded row leaves no trace
        ch.files["/virtual/in.csv"] = [["a", "x", s0, e0], ["a", "y", s1, e1], ["b", "x", s0, e0], ["c", "x", s1, e1]]
        undo = install_csv(ch)
        saved_print = co.__dict__.get("print")
        co.print = lambda *a, **k: None
        try:
            try:
                back = co.Continuum.from_csv("/virtual/in.csv", discard_invalid_rows=cfg["discard"])
                raised = False
            except ValueError:
                raised, back = True, None
        finally:
            undo()
            if saved_print is None:
                del co.print
            else:
                co.print = saved_print
        if cfg["discard"]:
            return [Obl("zero-length-row-discarded-others-kept", (not raised) and back.num_units == 2 and list(back.annotators) == ["a", "b"]
                        and list(back.categories) == ["x"], rz)]
        return [Obl("zero-length-row-rejected", raised, rz)]

    def tiers(ctx, ntiers):
        T = {}
        inputs = []
        for t in range(ntiers):
            ivs = []
            prev_end = None
            for i in range(2):
                a, b = ctx.fresh(f"t{t}s{i}_"), ctx.fresh(f"t{t}e{i}_")
                ctx.solver.add(b.e - a.e > lift(PREC))
                if prev_end is not None:
                    ctx.solver.add(a.e >= prev_end.e)        # intervals of one tier do not overlap (format invariant)
                prev_end = b
                # marks: a blank-only one and one padded with blanks (both are non-empty annotations and are the label, blanks included),
                # an empty one, a plain one.  Marks differ from tier to tier (one / two blanks): two intervals of different tiers with the
                # same times AND the same mark are one unit of the continuum (a set per annotator, C13) - that case is outside this check
                mark = ["m%d%d" % (t, i), ""][(t + i) % 2] if i == 1 else [" " * (1 + t // 2), " m%d%d " % (t, i)][t % 2]
                ivs.append((a, b, mark))
                inputs += [a, b]
            T[f"t{t}"] = ivs
        ctx.notes["inputs"] = inputs
        return T

    def h_tiers(ctx):
        T = tiers(ctx, cfg["ntiers"])
        sel, use_tier = cfg["sel"], cfg["use_tier"]

        def rz(m):
            return dict(kind=kind, sel=sel, use_tier=use_tier, tiers={k: [[common.frs(mval(m, a)), common.frs(mval(m, b)), mk] for a, b, mk in v] for k, v in T.items()})
        ctx.notes["realize"] = rz
        saved = {k: sys.modules.get(k) for k in ("textgrid", "pympi")}

        class Interval:
            def __init__(self, a, b, mark):
                self.minTime, self.maxTime, self.mark = a, b, mark

        class TG:
            @staticmethod
            def fromFile(path):
                return TG()

            def getNames(self):
                return list(T)

            def getFirst(self, name):
                return [Interval(a, b, mk) for a, b, mk in T[name]]

        class Eaf:
            def __init__(self, path):
                pass

            def get_tier_names(self):
                return list(T)

            def get_annotation_data_for_tier(self, name):
                return [(a, b, mk) for a, b, mk in T[name] if mk]     # ELAN stores annotations only (no empty intervals)
        sys.modules["textgrid"] = types.SimpleNamespace(TextGrid=TG, IntervalTier=object)
        sys.modules["pympi"] = types.SimpleNamespace(Eaf=Eaf)
        try:
            c = co.Continuum()
            if kind == "textgrid":
                c.add_textgrid("ann", "/virtual/f.TextGrid", selected_tiers=sel, use_tier_as_annotation=use_tier)
            else:
                c.add_elan("ann", "/virtual/f.eaf", selected_tiers=sel, use_tier_as_annotation=use_tier)
        finally:
            for k, v in saved.items():
                if v is None:
                    sys.modules.pop(k, None)
                else:
                    sys.modules[k] = v
        want = []
        for name, ivs in T.items():
            if sel is not None and name not in sel:
                continue
            for a, b, mk in ivs:
                if mk:
                    want.append((a, b, name if use_tier else mk))
        got = [(u.segment.start, u.segment.end, u.annotation) for u in c._annotations["ann"]] if "ann" in c._annotations else []
        o = [Obl("only-the-given-annotator", list(c.annotators) in ([], ["ann"]), rz),
             Obl("one-unit-per-non-empty-interval-of-selected-tiers", len(got) == len(want), rz)]
        for w in want:
            o.append(Obl("exact-times-and-requested-label", SymBool(z3.Or(*[z3.And(lift(g[0]) == lift(w[0]), lift(g[1]) == lift(w[1]), z3.BoolVal(g[2] == w[2])) for g in got])
                                                                     if got else z3.BoolVal(False)), rz))
        return o

    def h_rttm(ctx):
        inputs = []
        data = {}
        for uri in ("fileA", "fileB"):
            tr = []
            for i in range(2 if uri == "fileA" else 1):
                a, b = ctx.fresh(f"{uri}s{i}_"), ctx.fresh(f"{uri}e{i}_")
                ctx.solver.add(b.e - a.e > lift(PREC))
                tr.append((Segment(a, b), f"trk{i}", "spk%d" % i))
                inputs += [a, b]
            data[uri] = tr
        ctx.notes["inputs"] = inputs
        rz = lambda m: dict(kind="rttm", data={k: [[common.frs(mval(m, s.start)), common.frs(mval(m, s.end)), lab] for s, _, lab in v] for k, v in data.items()})   # noqa: E731
        ctx.notes["realize"] = rz

        class Ann:
            def __init__(self, tr):
                self.tr = tr

            def itertracks(self, yield_label=False):
                for s, t, lab in self.tr:
                    yield (s, t, lab) if yield_label else (s, t)
        saved = co.load_rttm
        seen = []

        def fake(path):
            seen.append(path)
            return {k: Ann(v) for k, v in data.items()}
        co.load_rttm = fake
        try:
            c = co.Continuum.from_rttm("/virtual/f.rttm")
        finally:
            co.load_rttm = saved
        o = [Obl("uri-as-annotator", list(c.annotators) == ["fileA", "fileB"], rz), Obl("path-forwarded", seen == ["/virtual/f.rttm"], rz)]
        for uri, tr in data.items():
            got = [(u.segment.start, u.segment.end, u.annotation) for u in c._annotations[uri]] if uri in c._annotations else []
            o.append(Obl("one-unit-per-track", len(got) == len(tr), rz))
            for s, _, lab in tr:
                o.append(Obl("exact-times-and-label", SymBool(z3.Or(*[z3.And(lift(g[0]) == lift(s.start), lift(g[1]) == lift(s.end), z3.BoolVal(g[2] == lab)) for g in got])
                                                              if got else z3.BoolVal(False)), rz))
        return o
    return dict(csv=h_csv, csvzero=h_csvzero, textgrid=h_tiers, elan=h_tiers, rttm=h_rttm)[kind]


# ---------------------------------------------------------------------------------------------
NASTY = [" lead", "trail ", "in ner", 'quo"te', "semi;colon", "com,ma", "tab\there", "unicodé-ß", "'single'", "a", " ",
         "two\nlines", "para one\n\npara two", "top\n \t\nbottom", "cr\rlf", "crlf\r\nx",
         # Unicode equivalence classes: precomposed / decomposed, singleton (ANGSTROM SIGN), compatibility forms (ligature, full width), case
         "caf\u00e9", "cafe\u0301", "\u212b", "\u00c5", "A\u030a", "\ufb01n", "fin", "\uff21\uff22", "AB", "ab", "Ab", "\u1112\u1161\u11ab", "\ud55c"]


def real_checks(tier):
    """concrete cross-check of what the channel stub cannot see: the real csv module with awkward field texts"""
    return [dict(kind="csv-nasty", name="CSV round trip with leading / trailing blanks, quotes, delimiters, unicode in labels and annotators")]


def replay(case):
    """real files in a temporary directory, real parsers"""
    import os
    import tempfile
    import pygamma_agreement as pa
    from pyannote.core import Segment
    F = lambda x: float(Fraction(x))     # noqa: E731
    bad = []
    d = tempfile.mkdtemp(prefix="verif_c18_")
    try:
        if case["kind"] in ("csv-nasty", "csv"):
            # awkward texts in every field position, every delimiter
            for delim in (",", ";", "\t", "|"):
                c = pa.Continuum()
                for i, lab in enumerate(NASTY):
                    c.add(NASTY[(i * 3 + 1) % len(NASTY)] or "x", Segment(float(i), float(i) + 0.5 + i / 7), lab)
                p = os.path.join(d, "nasty.csv")
                c.to_csv(p, delimiter=delim)
                back = pa.Continuum.from_csv(p, delimiter=delim)
                if not (back == c) or list(back.categories) != list(c.categories) or list(back.annotators) != list(c.annotators):
                    diff = [x for x in list(c) if x not in list(back)][:2]
                    bad.append(f"delimiter {delim!r}: round trip differs, e.g. {diff}; categories {list(back.categories)} vs {list(c.categories)}")
        if case["kind"] == "csv-nasty":
            pass                            # the loop above is the whole cross-check
        elif case["kind"] == "csv":
            c = common.real_continuum(dict(units=case["units"]))
            p = os.path.join(d, "o.csv")
            c.to_csv(p, delimiter=case["delim"])
            back = pa.Continuum.from_csv(p, delimiter=case["delim"])
            if not (back == c) or list(back.categories) != list(c.categories):
                bad.append(f"round trip differs: {list(back)} vs {list(c)}; categories {list(back.categories)} vs {list(c.categories)}")
        elif case["kind"] == "csvzero":
            p = os.path.join(d, "i.csv")
            with open(p, "w") as f:
                for a, lab, s, e in case["rows"]:
                    f.write(f"{a},{lab},{F(s)!r},{F(e)!r}\n")
            try:
                back = pa.Continuum.from_csv(p, discard_invalid_rows=case["discard"])
                if not case["discard"]:
                    bad.append("zero-length row accepted although discard_invalid_rows=False")
                else:
                    valid = [r for r in case["rows"] if F(r[3]) - F(r[2]) > 1e-6]
                    want_a, want_c = sorted({r[0] for r in valid}), sorted({r[1] for r in valid})
                    if back.num_units != len(valid):
                        bad.append(f"{back.num_units} units read, {len(valid)} valid rows")
                    if list(back.annotators) != want_a or list(back.categories) != want_c:
                        bad.append(f"discarded rows left a trace: annotators {list(back.annotators)} (valid rows: {want_a}), categories {list(back.categories)} (valid rows: {want_c})")
            except ValueError:
                if case["discard"]:
                    bad.append("zero-length row raised although discard_invalid_rows=True")
        elif case["kind"] == "textgrid":
            import textgrid
            tg = textgrid.TextGrid()
            want = []
            for name, ivs in case["tiers"].items():
                t = textgrid.IntervalTier(name)
                for a, b, mk in sorted(ivs, key=lambda x: F(x[0])):
                    try:
                        t.add(F(a), F(b), mk)
                    except Exception:     # noqa: BLE001  overlapping intervals cannot be stored in one tier
                        continue
                    if mk and (case["sel"] is None or name in case["sel"]):
                        want.append((F(a), F(b), name if case["use_tier"] else mk))
                tg.append(t)
            p = os.path.join(d, "f.TextGrid")
            try:
                tg.write(p)
            except Exception as ex:     # noqa: BLE001
                return dict(reproduced=None, detail="could not write the TextGrid test file: " + repr(ex)[:200])
            c = pa.Continuum()
            c.add_textgrid("ann", p, selected_tiers=case["sel"], use_tier_as_annotation=case["use_tier"])
            got = sorted((round(u.segment.start, 6), round(u.segment.end, 6), u.annotation) for _, u in c)
            if got != sorted((round(a, 6), round(b, 6), l) for a, b, l in want):
                bad.append(f"units {got} != intervals {sorted(want)}")
        elif case["kind"] == "elan":
            import pympi
            eaf = pympi.Eaf()
            want = []
            # ELAN times are integer milliseconds: the model's times are mapped to distinct integers preserving their order
            times = sorted({F(x) for ivs in case["tiers"].values() for a, b, _ in ivs for x in (a, b)})
            ms = {t: 100 * (i + 1) for i, t in enumerate(times)}
            for name, ivs in case["tiers"].items():
                eaf.add_tier(name)
                for a, b, mk in ivs:
                    if not mk:
                        continue
                    eaf.add_annotation(name, ms[F(a)], ms[F(b)], mk)
                    if case["sel"] is None or name in case["sel"]:
                        want.append((ms[F(a)], ms[F(b)], name if case["use_tier"] else mk))
            p = os.path.join(d, "f.eaf")
            try:
                eaf.to_file(p)
            except Exception as ex:     # noqa: BLE001
                return dict(reproduced=None, detail="could not write the ELAN test file: " + repr(ex)[:200])
            c = pa.Continuum()
            c.add_elan("ann", p, selected_tiers=case["sel"], use_tier_as_annotation=case["use_tier"])
            got = sorted((u.segment.start, u.segment.end, u.annotation) for _, u in c)
            if got != sorted(want) or list(c.annotators) not in ([], ["ann"]):
                bad.append(f"units {got} != annotations {sorted(want)}")
        elif case["kind"] == "rttm":
            p = os.path.join(d, "f.rttm")
            want = {}
            with open(p, "w") as f:
                for uri, tr in case["data"].items():
                    for a, b, lab in tr:
                        f.write(f"SPEAKER {uri} 1 {F(a):.6f} {F(b) - F(a):.6f} <NA> <NA> {lab} <NA> <NA>\n")
                        want.setdefault(uri, []).append((round(F(a), 4), round(F(b), 4), lab))
            c = pa.Continuum.from_rttm(p)
            got = {a: sorted((round(u.segment.start, 4), round(u.segment.end, 4), u.annotation) for u in c._annotations[a]) for a in c.annotators}
            if got != {k: sorted(v) for k, v in want.items()}:
                bad.append(f"units {got} != tracks {want}")
        else:
            return dict(reproduced=None, detail="no file-level replay for this kind")
    except Exception as ex:     # noqa: BLE001
        return dict(reproduced=True, detail="real build raised " + repr(ex)[:300])
    finally:
        import shutil
        shutil.rmtree(d, ignore_errors=True)
    return dict(reproduced=bool(bad), detail="; ".join(bad)[:400])
