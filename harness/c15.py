"""C15 -- the statistical sampler emits valid continua built from the supplied / measured parameters."""
from fractions import Fraction

import z3

from symx import core, stubs, fp
from symx.core import Obl, SymNum, SymBool, lift, lb, mval
from . import common
from .common import ANN

META = dict(
    level="model_checking",
    technique="bounded symbolic execution (z3; reals, plus one IEEE binary64 configuration in the FloatingPoint theory) of StatisticalContinuumSampler (init_sampling, init_sampling_custom, sample_from_continuum) under a nondeterministic RNG stub; parameter data-flow read off the RNG call log",
    design_ref="section 4 / C15",
    claim="For ALL outcomes of the random draws within the bound (any real value for every normal draw, any category of non-zero weight), all custom "
          "parameter values and all reference coordinates: drawing a sample raises nothing, the sample is non-empty, has exactly the ground-truth "
          "annotators, every unit is longer than SEGMENT_PRECISION and labelled with a reference / supplied category; and the generative "
          "data-flow is the documented one: the unit count of each annotator is |trunc| of a draw of normal(avg_nb, std_nb) (at least 1 while the sample "
          "is empty), each start is the previous end plus a draw of normal(avg_gap, std_gap), each duration is |draw| of normal(avg_dur, std_dur), "
          "each label a draw of choice(categories, p=weights), with the supplied numbers in custom mode and, in measured mode, mean/std of units per "
          "annotator, mean/std of durations and label frequencies of the reference. In IEEE binary64 arithmetic (ieee configuration: one annotator, 1-2 units, every "
          "normal draw any finite double of magnitude <= 2^40): the draw raises nothing and every emitted segment is longer than the precision after the rounding "
          "of start = last + gap and end = start + duration.",
    trusted="z3; RNG stub contract; np.std modelled as an uninterpreted value >= 0 applied to the logged argument list (numpy computes it correctly); "
            "distributional goodness of fit over many draws is statistics, not a solver question: outside the claim",
    bounds=dict(quick="1 annotator x <= 2 units or 2 annotators x <= 1 unit per draw, <= 2 redraws of a duration, 2 categories; "
                      "custom mode (all 6 parameters symbolic) and measured mode on references (1,1),(2,1); IEEE mode: 1 annotator x 1 unit, <= 2 redraws",
                thorough="3 annotators x <= 1 unit, 2 x <= 2, 1 x <= 3; measured mode on (2,2),(1,1,1) and ground-truth subsets; IEEE mode: 1 annotator x 2 units"),
    outside="goodness of fit of the empirical distributions; numpy's generators; more than 3 units per annotator per draw",
    stubs=["np.random.normal/choice = fresh symbolic draws, logged with their arguments", "np.std = fresh value >= 0 (argument list logged)",
           "int() = truncation toward zero", "redraw loops cut after a per-path draw budget (counted)"],
    assumptions=["reference units labelled and longer than SEGMENT_PRECISION"],
    cfg_budget_s=dict(quick=240, thorough=900),
)


def configs(tier):
    out = []
    for nann, mu in ((1, 2), (2, 1)):
        for w in ("weights", "noweights"):
            out.append(dict(key=f"custom,annotators={nann},{w},maxu={mu}", mode="custom", nann=nann, weights=(w == "weights"), maxu=mu, cost=20 * 9 ** nann))
    for sizes, gt in [((1, 1), None), ((2, 1), None), ((1, 1, 1), [0, 1]), ((2, 0), None)]:
        out.append(dict(key=f"measured,ref={sizes},gt={gt}", mode="measured", sizes=list(sizes), gt=gt, maxu=1,
                        cost=50 * 9 ** (len(gt) if gt else len(sizes))))
    out.append(dict(key="measured,ref=(2, 1),gt=None,ties-on-start-allowed", mode="measured", sizes=[2, 1], gt=None, maxu=1, ties=True, cost=50 * 81))
    # three units for one annotator (a unit nested in an earlier one, then a third: where "the previous unit" and "the latest end so far" differ)
    out.append(dict(key="measured,ref=(3, 1),gt=None", mode="measured", sizes=[3, 1], gt=None, maxu=1, cost=50 * 81))
    # long redraw chains: one annotator, one unit, up to 24 consecutive duration draws that are too short
    out.append(dict(key="custom,annotators=1,weights,maxu=1,redraws<=24", mode="custom", nann=1, weights=True, maxu=1, maxredraw=24, cost=600))
    # the same sampler object initialised twice on the same continuum object (other ground truth, continuum changed in between)
    out.append(dict(key="measured,re-initialised,ref=(1, 1, 1),gt=[0, 1]", mode="measured", sizes=[1, 1, 1], gt=[0, 1], maxu=1, reinit=True, cost=5000))
    # IEEE mode (symx.fp): the same sampler source on binary64 draws - validity of the emitted segments after the rounding of
    # start = last + gap and end = start + duration, for positions up to 2^40 (what the real-arithmetic configurations cannot see)
    for nu in ((1,) if tier == "quick" else (1, 2)):
        out.append(dict(key=f"ieee,custom,annotators=1,units={nu}", mode="ieee", nu=nu, maxu=nu, timeout_ms=120000, cost=400 * nu, split=8 if nu > 1 else None))
    if tier == "thorough":
        out.append(dict(key="custom,annotators=3,weights,maxu=1", mode="custom", nann=3, weights=True, maxu=1, cost=20000))
        out.append(dict(key="custom,annotators=2,weights,maxu=2", mode="custom", nann=2, weights=True, maxu=2, cost=20000))
        out.append(dict(key="custom,annotators=1,weights,maxu=3", mode="custom", nann=1, weights=True, maxu=3, cost=20000))
        for sizes, gt in [((2, 2), None), ((1, 1, 1), None), ((2, 1, 1), [0, 2])]:
            out.append(dict(key=f"measured,ref={sizes},gt={gt},maxu=1", mode="measured", sizes=list(sizes), gt=gt, maxu=1, cost=30000))
        out.append(dict(key="measured,ref=(1, 1),gt=None,maxu=2", mode="measured", sizes=[1, 1], gt=None, maxu=2, cost=30000))
    return out


MAXREDRAW = 2


def harness(cfg, ns):
    sa, co, Segment = ns.sa, ns.co, ns.Segment
    PREC = ns.pseg.SEGMENT_PRECISION
    maxu = cfg["maxu"]

    def h_ieee(ctx):
        ctx.fp_mode = True
        nu = cfg["nu"]
        log = []

        class FPRNG:
            """numpy.random contract in IEEE mode: normal(mu, sd) is any finite binary64 (|x| <= 2^40), the mean itself when sd == 0"""
            draws = 0

            def normal(self, mu=0.0, sd=1.0, size=None):
                if not isinstance(sd, fp.SymFP) and sd == 0:
                    return mu
                FPRNG.draws += 1
                if FPRNG.draws > 3 * nu + 1:
                    raise core.Cut("ieee:duration-redraws")
                v = fp.fresh(ctx, "nrm", 64, lo=-2.0 ** 40, hi=2.0 ** 40)
                log.append(v)
                return v

            def choice(self, seq, size=None, replace=True, p=None):
                return list(seq)[0]

            def seed(self, *a):
                pass
        ns.np.random = FPRNG()
        smp = sa.StatisticalContinuumSampler()
        smp.init_sampling_custom(["g0"], nu, 0, 1.0, 1.0, 1.0, 1.0, ["x"], None)

        def rz(m):
            return dict(kind="ieee-statistical", nu=nu, draws=[fp.hexf(fp.fpval(m, v)) for v in log])
        ctx.notes["realize"] = rz
        ctx.notes["fp_prefer"] = []
        out = smp.sample_from_continuum
        units = [u for _, u in out]
        P = fp.SymFP.of(PREC)
        obls = [Obl("ieee:sample-not-empty", len(units) >= 1, rz), Obl("ieee:annotators==ground-truth", list(out.annotators) == ["g0"], rz)]
        for k, u in enumerate(units):
            obls.append(Obl(f"ieee:unit-longer-than-precision-after-rounding[{k}]", (u.segment.end - u.segment.start) > P, rz))
            obls.append(Obl(f"ieee:unit-bounds-finite[{k}]", fp.is_finite(fp.SymFP.of(u.segment.start)) & fp.is_finite(fp.SymFP.of(u.segment.end)), rz))
        return obls

    def h(ctx):
        if cfg["mode"] == "ieee":
            return h_ieee(ctx)
        rng = stubs.RNG(ctx, max_draws=80)
        maxredraw = cfg.get("maxredraw", MAXREDRAW)
        ns.np.random = rng
        ns.np.std_calls = []
        s = sa.StatisticalContinuumSampler()
        E = {}
        if cfg["mode"] == "custom":
            anns = [f"g{i}" for i in range(cfg["nann"])]
            P = {k: ctx.fresh(k) for k in ("avg_nb", "std_nb", "avg_gap", "std_gap", "avg_dur", "std_dur")}
            cats = ["y", "x"]               # supplied out of alphabetical order, on purpose: each weight belongs to its own category
            weights = [0.25, 0.75] if cfg["weights"] else None
            s.init_sampling_custom(anns, P["avg_nb"], P["std_nb"], P["avg_gap"], P["std_gap"], P["avg_dur"], P["std_dur"], cats, weights)
            inputs = list(P.values())
            gt_names = anns
            info = {}
        else:
            sizes = tuple(cfg["sizes"])
            labels = [("x", "y")[(k // 2) % 2] for k in range(sum(sizes))]
            c, info = common.build_continuum(ns, ctx, sizes, coords="sym", labels=labels, ordered=("weak" if cfg.get("ties") else True))
            inputs = [v[kk] for v in info.values() for kk in ("start", "end")]
            gt = None if cfg["gt"] is None else [ANN[i] for i in cfg["gt"]]
            gt_names = [ANN[i] for i in (range(len(sizes)) if cfg["gt"] is None else cfg["gt"])]
            if cfg.get("reinit"):
                # first initialisation: all annotators, and the continuum does not hold its last unit yet
                last_a = [a for a in c._annotations.keys()][-1]
                last_u = list(c._annotations[last_a])[-1]
                c.remove(last_a, last_u)
                s.init_sampling(c, None)
                c.add(last_a, last_u.segment, last_u.annotation)
            s.init_sampling(c, gt)
            cats = sorted(set(labels))
            durs = [v["end"] - v["start"] for (a, j), v in sorted(info.items())]
            nunits = sum(sizes)
            P = dict(avg_nb=Fraction(nunits, len(sizes)), avg_dur=ns.np.mean(durs))
            weights = [Fraction(labels.count(cname), nunits) for cname in cats]
            E["measured"] = True
        E["P"] = P

        def rz(m):
            draws = []
            for rec in rng.log:
                if rec[0] == "normal":
                    draws.append(["normal", common.frs(mval(m, rec[3]))])
                elif rec[0] == "choice":
                    draws.append(["choice", rec[3]])
            case = dict(kind="statistical", mode=cfg["mode"], draws=draws, gt=cfg.get("gt"), nann=cfg.get("nann"), weights=cfg.get("weights"),
                        reinit=bool(cfg.get("reinit")))
            if cfg["mode"] == "custom":
                case["params"] = {k: common.frs(mval(m, v)) for k, v in P.items()}
            else:
                case["sizes"] = cfg["sizes"]
                case["units"] = [[ANN[a], common.frs(mval(m, v["start"])), common.frs(mval(m, v["end"])), v["label"]] for (a, j), v in sorted(info.items())]
            return case
        ctx.notes["realize"] = rz
        ctx.notes["inputs"] = inputs
        # bound the unit-count draws and the number of duration redraws (cuts are counted)
        orig_normal = rng.normal
        state = dict(dur_draws=0, units_planned=0)
        nb_mu = s._avg_nb_units_per_annotator
        dur_mu = s._avg_unit_duration

        def normal(mu=0.0, sd=1.0, size=None):
            v = orig_normal(mu, sd)
            if mu is nb_mu or (not isinstance(mu, SymNum) and not isinstance(nb_mu, SymNum) and mu == nb_mu and sd == s._std_nb_units_per_annotator):
                ctx.solver.add(v.e > -(maxu + 1), v.e < maxu + 1)
                ctx.get_model()
            elif mu is dur_mu:
                state["dur_draws"] += 1
                if state["dur_draws"] > len(gt_names) * maxu + maxredraw:
                    raise core.Cut("duration-redraws>%d" % maxredraw)
            return v
        rng.normal = normal
        ADDS = []
        orig_add = co.Continuum.add

        def spy_add(self, annotator, segment, annotation=None):
            ADDS.append((annotator, segment.start, segment.end, annotation))
            return orig_add(self, annotator, segment, annotation)
        co.Continuum.add = spy_add
        try:
            smp = s.sample_from_continuum
        finally:
            co.Continuum.add = orig_add
        ctx.notes["inputs"] = inputs + [r[3] for r in rng.log if r[0] == "normal"]
        obls = [Obl("sample-non-empty", smp.num_units >= 1 and bool(smp), rz),
                Obl("annotators==ground-truth", list(smp.annotators) == sorted(gt_names), rz)]
        for a, u in smp:
            obls.append(Obl("unit-longer-than-precision", SymBool(lift(u.segment.end) - lift(u.segment.start) > lift(PREC)), rz))
            obls.append(Obl("label-in-categories", u.annotation in cats, rz))
        # ---- data-flow, read off the RNG log and the sequence of Continuum.add calls (the order of the draws inside one unit is
        # not prescribed by the property, only which law each quantity is drawn from)
        log = list(rng.log)
        normals = [r for r in log if r[0] == "normal"]
        choices = [r for r in log if r[0] == "choice"]
        # (membership by identity: comparing log records with == would compare symbolic numbers and fork)
        nb_draws = [r for r in normals if _is(r[1], s._avg_nb_units_per_annotator, r[2], s._std_nb_units_per_annotator)]
        used = {id(r) for r in nb_draws}
        gap_draws = [r for r in normals if id(r) not in used and _is(r[1], s._avg_gap, r[2], s._std_gap)]
        used |= {id(r) for r in gap_draws}
        dur_draws = [r for r in normals if id(r) not in used and _is(r[1], s._avg_unit_duration, r[2], s._std_unit_duration)]
        obls.append(Obl("every-normal-draw-uses-one-of-the-three-documented-parameter-pairs", len(nb_draws) + len(gap_draws) + len(dur_draws) == len(normals), rz))
        obls.append(Obl("one-count-draw-per-annotator", len(nb_draws) == len(gt_names), rz))
        for ch in choices:
            obls.append(Obl("label-draw-uses-(categories,weights)", _pairs_ok([str(x) for x in ch[1]], ch[2], cats, weights), rz))
        per_ann = {a: [x for x in ADDS if x[0] == a] for a in sorted(gt_names)}
        empty_so_far = True
        for ai, a in enumerate(sorted(gt_names)):
            k = len(per_ann[a])
            if ai < len(nb_draws):
                want = abs(core.s_int(nb_draws[ai][3]))
                if empty_so_far:
                    want = core.s_max(1, want)
                obls.append(Obl("unit-count==|trunc(count draw)|(>=1 while empty)", core.eq(want, k), rz))
            if k:
                empty_so_far = False
            last = 0
            for (_, st, en, lab) in per_ann[a]:
                obls.append(Obl("start==previous end + a draw of normal(avg_gap, std_gap)",
                                SymBool(z3.Or(*[lift(st) == lift(last) + lift(g[3]) for g in gap_draws]) if gap_draws else z3.BoolVal(False)), rz))
                obls.append(Obl("duration==|a draw of normal(avg_dur, std_dur)|",
                                SymBool(z3.Or(*[lift(en) - lift(st) == lift(abs(d_[3])) for d_ in dur_draws]) if dur_draws else z3.BoolVal(False)), rz))
                obls.append(Obl("label==a draw of choice(categories, weights)", any(str(ch[1][ch[3]]) == str(lab) for ch in choices), rz))
                last = en
        obls.append(Obl("as-many-gap-and-label-draws-as-units", len(gap_draws) == len(ADDS) == len(choices), rz))
        obls.append(Obl("every-duration-draw-is-used-or-too-short", SymBool(z3.And(*[z3.Or(lift(abs(d_[3])) <= lift(PREC),
                        *[lift(x[2]) - lift(x[1]) == lift(abs(d_[3])) for x in ADDS]) for d_ in dur_draws] + [z3.BoolVal(True)])), rz))
        for a in sorted(gt_names):
            got = [(u.segment.start, u.segment.end, u.annotation) for u in smp._annotations[a]]
            obls.append(Obl("no-unit-beyond-the-generated-ones", len(got) <= len(per_ann[a]), rz))
            for (_, st, en, lab) in per_ann[a]:
                ex = z3.Or(*[z3.And(lift(g[0]) == lift(st), lift(g[1]) == lift(en), z3.BoolVal(g[2] == lab)) for g in got]) if got else z3.BoolVal(False)
                obls.append(Obl("every-generated-unit-is-in-the-sample", SymBool(ex), rz))
        if E.get("measured"):
            obls.append(Obl("measured:avg_nb==mean-units-per-annotator", core.approx(s._avg_nb_units_per_annotator, P["avg_nb"]), rz))
            obls.append(Obl("measured:avg_dur==mean-duration", core.eq(s._avg_unit_duration, P["avg_dur"]), rz))
            # the gap law: gaps between CONSECUTIVE units of an annotator (start minus the previous unit's end, nested or overlapping
            # units give negative gaps), the offset of each annotator's first unit when positive, and one leading 0
            per = {}
            for (a, j), v in sorted(info.items()):
                per.setdefault(a, []).append(v)
            g_num, g_cnt = lift(0), z3.IntVal(1)
            for a, us in per.items():
                us = sorted(us, key=lambda v: 0) if False else us      # records are in the container's order
                for prev_, nxt_ in zip(us, us[1:]):
                    g_num = g_num + (lift(nxt_["start"]) - lift(prev_["end"]))
                    g_cnt = g_cnt + 1
                first = lift(us[0]["start"])
                g_num = g_num + z3.If(first > 0, first, lift(0))
                g_cnt = g_cnt + z3.If(first > 0, 1, 0)
            obls.append(Obl("measured:avg_gap==mean(gaps between consecutive units, positive first offsets, a leading 0)",
                            SymBool(lift(s._avg_gap) * z3.ToReal(g_cnt) == g_num), rz))
            std_args = [xs for xs, _ in ns.np.std_calls]
            obls.append(Obl("measured:std_dur==std(durations)", any(len(xs) == len(durs) and all(core.eq(x, d_).e is not None and
                            z3.is_true(z3.simplify(core.eq(x, d_).e)) for x, d_ in zip(xs, durs)) and sv is s._std_unit_duration for xs, sv in ns.np.std_calls), rz))
            obls.append(Obl("measured:weights==label-frequencies", _weights_ok(list(s._categories_weight), weights), rz))
            obls.append(Obl("measured:categories==reference-categories", [str(x) for x in s._categories] == cats, rz))
        return obls
    return h


def _is(mu, p_mu, sd, p_sd):
    def same(a, b):
        if a is b:
            return True
        if isinstance(a, SymNum) or isinstance(b, SymNum):
            return isinstance(a, SymNum) and isinstance(b, SymNum) and z3.is_true(z3.simplify(a.e == b.e))
        return a == b
    return same(mu, p_mu) and same(sd, p_sd)


def _count_next(log, pos, s):
    """disambiguation when count and gap parameters coincide syntactically: never the case for distinct symbols"""
    return False


def _redraw_possible(log, pos):
    return True


def _pairs_ok(seq, p, cats, weights):
    """the draw is made from the documented categories, each with ITS weight (any consistent order of the pairs)"""
    if sorted(seq) != sorted(cats):
        return False
    if weights is None:
        return p is None
    if p is None or len(p) != len(seq):
        return False
    return sorted((c_, round(float(w_), 12)) for c_, w_ in zip(seq, p)) == sorted((c_, round(float(w_), 12)) for c_, w_ in zip(cats, weights))


def _weights_ok(p, weights):
    if weights is None:
        return p is None
    if p is None:
        return False
    return len(p) == len(weights) and all(abs(float(a) - float(b)) < 1e-12 for a, b in zip(p, weights))


# ---------------------------------------------------------------------------------------------
def real_checks(tier):
    """concrete cross-check of what real arithmetic cannot see: float rounding of start + duration at extreme scales"""
    return [dict(kind="extreme-scales", name="samples stay valid when positions are huge and durations tiny (float rounding of start + duration)")]


def _extreme_scales():
    import numpy as np
    import pyannote.core.segment as pseg
    from pygamma_agreement.sampler import StatisticalContinuumSampler
    bad = []
    for tag, kw in (("far from the origin", dict(avg_gap=1e10, std_gap=1e3, avg_duration=1e-5, std_duration=5e-6)),
                    ("epoch seconds, microsecond durations", dict(avg_gap=1.7e9, std_gap=10.0, avg_duration=2e-6, std_duration=1e-6)),
                    ("ordinary", dict(avg_gap=5.0, std_gap=5.0, avg_duration=10.0, std_duration=3.0))):
        np.random.seed(1515)
        s = StatisticalContinuumSampler()
        s.init_sampling_custom(["g0", "g1"], avg_num_units_per_annotator=4, std_num_units_per_annotator=1, categories=["x", "y"], **kw)
        for k in range(15):
            try:
                smp = s.sample_from_continuum
            except Exception as ex:     # noqa: BLE001
                bad.append(f"{tag}: draw {k} raised {ex!r}"[:160])
                break
            if smp.num_units < 1 or list(smp.annotators) != ["g0", "g1"] or any(not (u.segment.end - u.segment.start > pseg.SEGMENT_PRECISION) for _, u in smp):
                bad.append(f"{tag}: draw {k} gave an invalid sample")
                break
    return dict(reproduced=bool(bad), detail="; ".join(bad[:3]))


def _replay_ieee(case):
    """the real sampler with numpy.random.normal returning exactly the model's binary64 draws"""
    import numpy as np
    import pyannote.core.segment as pseg
    from pygamma_agreement.sampler import StatisticalContinuumSampler
    from unittest import mock
    draws = [fp.unhex(x) for x in case["draws"]]

    def normal(mu=0.0, sd=1.0, size=None):
        if sd == 0:
            return mu
        if not draws:
            raise RuntimeError("replay ran out of recorded draws")
        return draws.pop(0)
    s = StatisticalContinuumSampler()
    s.init_sampling_custom(["g0"], case["nu"], 0, 1.0, 1.0, 1.0, 1.0, ["x"], None)
    bad = []
    with mock.patch.object(np.random, "normal", normal), mock.patch.object(np.random, "choice", lambda seq, size=None, replace=True, p=None: list(seq)[0]):
        try:
            smp = s.sample_from_continuum
            for _, u in smp:
                if not (u.segment.end - u.segment.start > pseg.SEGMENT_PRECISION):
                    bad.append(f"unit {u.segment.start!r}..{u.segment.end!r} not longer than the precision")
            if smp.num_units < 1:
                bad.append("empty sample")
        except RuntimeError as ex:
            return dict(reproduced=False, detail=str(ex))
        except Exception as ex:     # noqa: BLE001
            bad.append(f"draws {[fp.unhex(x) for x in case['draws']]}: raised {ex!r}"[:300])
    return dict(reproduced=bool(bad), detail="; ".join(bad[:3]))


def replay(case):
    """Real build with numpy.random mocked by the model's draws.  Reproduced iff the sample is invalid
    OR differs from the documented generative process run on the same draws (count = |trunc(N(avg_nb,
    std_nb))| (>= 1 while empty), start = previous end + N(avg_gap, std_gap), duration = |N(avg_dur,
    std_dur)| redrawn while <= precision, label = choice(categories, p=weights)) OR a draw was
    requested with other parameters than the documented ones."""
    if case.get("kind") == "extreme-scales":
        return _extreme_scales()
    if case.get("kind") == "ieee-statistical":
        return _replay_ieee(case)
    import numpy as np
    import pygamma_agreement as pa
    import pyannote.core.segment as pseg
    from pygamma_agreement.sampler import StatisticalContinuumSampler
    from unittest import mock
    F = lambda x: float(Fraction(x))     # noqa: E731
    PREC = pseg.SEGMENT_PRECISION
    draws = list(case["draws"])
    calls = []

    def normal(mu=0.0, sd=1.0, size=None):
        while draws and draws[0][0] != "normal":
            draws.pop(0)
        if not draws:
            raise RuntimeError("replay ran out of recorded normal draws")
        v = F(draws.pop(0)[1])
        calls.append(("normal", float(mu), float(sd), v))
        return v

    def choice(seq, size=None, replace=True, p=None):
        if not draws or draws[0][0] != "choice":
            raise RuntimeError("replay expected a choice draw")
        i_ = draws.pop(0)[1]
        calls.append(("choice", [str(x) for x in seq], None if p is None else [float(x) for x in p], str(list(seq)[i_])))
        return list(seq)[i_]
    s = StatisticalContinuumSampler()
    if case["mode"] == "custom":
        P = {k: F(v) for k, v in case["params"].items()}
        anns = [f"g{i}" for i in range(case["nann"])]
        weights = [0.25, 0.75] if case["weights"] else None
        s.init_sampling_custom(anns, P["avg_nb"], P["std_nb"], P["avg_gap"], P["std_gap"], P["avg_dur"], P["std_dur"], ["y", "x"], weights)
        cats = ["y", "x"]
        gt = anns
    else:
        c = common.real_continuum(dict(units=case["units"], annotators=ANN[:len(case["sizes"])]))
        gt = None if case["gt"] is None else [ANN[i] for i in case["gt"]]
        if case.get("reinit"):
            last_a = list(c.annotators)[-1]
            last_u = list(c._annotations[last_a])[-1]
            c.remove(last_a, last_u)
            s.init_sampling(c, None)
            c.add(last_a, last_u.segment, last_u.annotation)
        s.init_sampling(c, gt)
        cats = list(c.categories)
        gt = gt or list(c.annotators)
        durs = [u.segment.end - u.segment.start for _, u in c]
        labs = [u.annotation for _, u in c]
        nbs = [len(c._annotations[a]) for a in c.annotators]
        # measured parameters, recomputed independently (the gap statistic is the code's own definition)
        gaps = [0.0]
        for a_ in c.annotators:
            us_ = list(c._annotations[a_])
            gaps += [n_.segment.start - p_.segment.end for p_, n_ in zip(us_, us_[1:])]
            if us_ and us_[0].segment.start > 0:
                gaps.append(us_[0].segment.start)
        P = dict(avg_nb=float(np.mean(nbs)), std_nb=float(np.std(nbs)), avg_dur=float(np.mean(durs)), std_dur=float(np.std(durs)),
                 avg_gap=float(np.mean(gaps)), std_gap=float(np.std(gaps)))
        if abs(float(s._avg_gap) - P["avg_gap"]) > 1e-9 * max(1.0, abs(P["avg_gap"])) or abs(float(s._std_gap) - P["std_gap"]) > 1e-9 * max(1.0, P["std_gap"]):
            return dict(reproduced=True, detail=f"gap law measured as N({float(s._avg_gap)}, {float(s._std_gap)}), the gaps between consecutive units of the reference give "
                                                f"N({P['avg_gap']}, {P['std_gap']})")
        weights = [labs.count(x) / len(labs) for x in cats]
    bad = []
    adds = []
    orig_add = pa.Continuum.add

    def spy_add(self, annotator, segment, annotation=None):
        adds.append((annotator, segment.start, segment.end, annotation))
        return orig_add(self, annotator, segment, annotation)
    try:
        with mock.patch("numpy.random.normal", normal), mock.patch("numpy.random.choice", choice), mock.patch.object(pa.Continuum, "add", spy_add):
            smp = s.sample_from_continuum
    except RuntimeError as ex:
        return dict(reproduced=None, detail=str(ex))
    except Exception as ex:     # noqa: BLE001
        return dict(reproduced=True, detail="sample_from_continuum raised " + repr(ex)[:300])
    if smp.num_units < 1:
        bad.append("empty sample")
    if list(smp.annotators) != sorted(gt):
        bad.append(f"annotators {list(smp.annotators)} != ground truth {sorted(gt)}")
    for a, u in smp:
        if not (u.segment.end - u.segment.start > PREC):
            bad.append(f"unit {u} not longer than the segment precision")
        if u.annotation not in cats:
            bad.append(f"label {u.annotation!r} not a category")
    # the documented laws, checked on what the code actually did (order of the draws inside one unit is free)
    def close(a, b):
        return abs(a - b) <= 1e-9 * max(1.0, abs(a), abs(b))
    normals = [c_ for c_ in calls if c_[0] == "normal"]
    chs = [c_ for c_ in calls if c_[0] == "choice"]

    def is_(c_, mu, sd):
        return close(c_[1], mu) and close(c_[2], sd)
    nb = [c_ for c_ in normals if is_(c_, P["avg_nb"], P["std_nb"])]
    gaps = [c_ for c_ in normals if is_(c_, P["avg_gap"], P["std_gap"]) and c_ not in nb]
    durs = [c_ for c_ in normals if is_(c_, P["avg_dur"], P["std_dur"]) and c_ not in nb and c_ not in gaps]
    other = [c_ for c_ in normals if c_ not in nb and c_ not in gaps and c_ not in durs]
    if other:
        bad.append(f"normal drawn with ({other[0][1]}, {other[0][2]}): none of the documented parameter pairs "
                   f"count ({P['avg_nb']}, {P['std_nb']}), gap ({P['avg_gap']}, {P['std_gap']}), duration ({P['avg_dur']}, {P['std_dur']})")
    if len(nb) != len(gt):
        bad.append(f"{len(nb)} unit-count draws for {len(gt)} annotators")
    for c_ in chs:
        if not _pairs_ok(c_[1], c_[2], [str(x) for x in cats], weights):
            bad.append(f"label drawn from {c_[1]} with weights {c_[2]}; documented: categories {cats} with weights {weights} (each weight with its own category)")
    empty = True
    for ai, a in enumerate(sorted(gt)):
        mine = [x for x in adds if x[0] == a]
        if ai < len(nb):
            k = abs(int(nb[ai][3]))
            if empty:
                k = max(1, k)
            if k != len(mine):
                bad.append(f"{a}: {len(mine)} units generated, |trunc(count draw {nb[ai][3]})| = {k}")
        if mine:
            empty = False
        last = 0.0
        for (_, st, en, lab) in mine:
            if not any(close(st, last + g[3]) for g in gaps):
                bad.append(f"{a}: start {st} is not previous end {last} + a gap draw {[g[3] for g in gaps]}")
            if not any(close(en - st, abs(d_[3])) for d_ in durs):
                bad.append(f"{a}: duration {en - st} is not |a duration draw| {[d_[3] for d_ in durs]}")
            if not any(c_[3] == str(lab) for c_ in chs):
                bad.append(f"{a}: label {lab!r} was not drawn")
            last = en
        got = {(u.segment.start, u.segment.end, u.annotation) for u in smp._annotations[a]} if a in smp._annotations else set()
        if not got <= {(st, en, lab) for (_, st, en, lab) in mine} or len(got) > len(mine):
            bad.append(f"{a}: the sample holds units that were not generated")
    return dict(reproduced=bool(bad), detail="; ".join(bad[:3])[:600])
