"""C15 -- the statistical sampler emits valid continua built from the supplied / measured parameters."""
from fractions import Fraction

import z3

from symx import core, stubs
from symx.core import Obl, SymNum, SymBool, lift, lb, mval
from . import common
from .common import ANN

META = dict(
    level="model_checking",
    technique="bounded symbolic execution (z3) of StatisticalContinuumSampler (init_sampling, init_sampling_custom, sample_from_continuum) under a nondeterministic RNG stub; parameter data-flow read off the RNG call log",
    design_ref="section 4 / C15",
    claim="For ALL outcomes of the random draws within the bound (any real value for every normal draw, any category of non-zero weight), all custom "
          "parameter values and all reference coordinates: drawing a sample raises nothing, the sample is non-empty, has exactly the ground-truth "
          "annotators, every unit is longer than SEGMENT_PRECISION and labelled with a reference / supplied category; and the generative "
          "data-flow is the documented one: the unit count of each annotator is |trunc| of a draw of normal(avg_nb, std_nb) (at least 1 while the sample "
          "is empty), each start is the previous end plus a draw of normal(avg_gap, std_gap), each duration is |draw| of normal(avg_dur, std_dur), "
          "each label a draw of choice(categories, p=weights), with the supplied numbers in custom mode and, in measured mode, mean/std of units per "
          "annotator, mean/std of durations and label frequencies of the reference.",
    trusted="z3; RNG stub contract; np.std modelled as an uninterpreted value >= 0 applied to the logged argument list (numpy computes it correctly); "
            "distributional goodness of fit over many draws is statistics, not a solver question: outside the claim",
    bounds=dict(quick="1 annotator x <= 2 units or 2 annotators x <= 1 unit per draw, <= 2 redraws of a duration, 2 categories; "
                      "custom mode (all 6 parameters symbolic) and measured mode on references (1,1),(2,1)",
                thorough="3 annotators x <= 1 unit, 2 x <= 2, 1 x <= 3; measured mode on (2,2),(1,1,1) and ground-truth subsets"),
    outside="goodness of fit of the empirical distributions; numpy's generators; more than 3 units per annotator per draw; the gap statistic's exact "
            "definition (the code's own: first-unit offsets included) is only checked for being what is passed to the RNG",
    stubs=["np.random.normal/choice = fresh symbolic draws, logged with their arguments", "np.std = fresh value >= 0 (argument list logged)",
           "int() = truncation toward zero", "redraw loops cut after a per-path draw budget (counted)"],
    assumptions=["reference units labelled and longer than SEGMENT_PRECISION"],
    cfg_budget_s=dict(quick=240, thorough=1700),
)


def configs(tier):
    out = []
    for nann, mu in ((1, 2), (2, 1)):
        for w in ("weights", "noweights"):
            out.append(dict(key=f"custom,annotators={nann},{w},maxu={mu}", mode="custom", nann=nann, weights=(w == "weights"), maxu=mu, cost=20 * 9 ** nann))
    for sizes, gt in [((1, 1), None), ((2, 1), None), ((1, 1, 1), [0, 1])]:
        out.append(dict(key=f"measured,ref={sizes},gt={gt}", mode="measured", sizes=list(sizes), gt=gt, maxu=1,
                        cost=50 * 9 ** (len(gt) if gt else len(sizes))))
    if tier == "thorough":
        out.append(dict(key="custom,annotators=3,weights,maxu=1", mode="custom", nann=3, weights=True, maxu=1, cost=20000))
        out.append(dict(key="custom,annotators=2,weights,maxu=2", mode="custom", nann=2, weights=True, maxu=2, cost=20000))
        out.append(dict(key="custom,annotators=1,weights,maxu=3", mode="custom", nann=1, weights=True, maxu=3, cost=20000))
        for sizes, gt in [((2, 2), None), ((1, 1, 1), None), ((2, 1, 1), [0, 2])]:
            out.append(dict(key=f"measured,ref={sizes},gt={gt},maxu=1", mode="measured", sizes=list(sizes), gt=gt, maxu=1, cost=30000))
        out.append(dict(key="measured,ref=(1, 1),gt=None,maxu=2", mode="measured", sizes=[1, 1], gt=None, maxu=2, cost=30000))
    return out


MAXREDRAW = 2


def harness(cfg, ns):
    sa, co, Segment = ns.sa, ns.co, ns.Segment
    PREC = ns.pseg.SEGMENT_PRECISION
    maxu = cfg["maxu"]

    def h(ctx):
        rng = stubs.RNG(ctx, max_draws=80)
        ns.np.random = rng
        ns.np.std_calls = []
        s = sa.StatisticalContinuumSampler()
        E = {}
        if cfg["mode"] == "custom":
            anns = [f"g{i}" for i in range(cfg["nann"])]
            P = {k: ctx.fresh(k) for k in ("avg_nb", "std_nb", "avg_gap", "std_gap", "avg_dur", "std_dur")}
            cats = ["x", "y"]
            weights = [0.25, 0.75] if cfg["weights"] else None
            s.init_sampling_custom(anns, P["avg_nb"], P["std_nb"], P["avg_gap"], P["std_gap"], P["avg_dur"], P["std_dur"], cats, weights)
            inputs = list(P.values())
            gt_names = anns
            info = {}
        else:
            sizes = tuple(cfg["sizes"])
            labels = [("x", "y")[(k // 2) % 2] for k in range(sum(sizes))]
            c, info = common.build_continuum(ns, ctx, sizes, coords="sym", labels=labels)
            inputs = [v[kk] for v in info.values() for kk in ("start", "end")]
            gt = None if cfg["gt"] is None else [ANN[i] for i in cfg["gt"]]
            gt_names = [ANN[i] for i in (range(len(sizes)) if cfg["gt"] is None else cfg["gt"])]
            s.init_sampling(c, gt)
            cats = sorted(set(labels))
            durs = [v["end"] - v["start"] for (a, j), v in sorted(info.items())]
            nunits = sum(sizes)
            P = dict(avg_nb=Fraction(nunits, len(sizes)), avg_dur=ns.np.mean(durs))
            weights = [Fraction(labels.count(cname), nunits) for cname in cats]
            E["measured"] = True
        E["P"] = P

        def rz(m):
            draws = []
            for rec in rng.log:
                if rec[0] == "normal":
                    draws.append(["normal", common.frs(mval(m, rec[3]))])
                elif rec[0] == "choice":
                    draws.append(["choice", rec[3]])
            case = dict(kind="statistical", mode=cfg["mode"], draws=draws, gt=cfg.get("gt"), nann=cfg.get("nann"), weights=cfg.get("weights"))
            if cfg["mode"] == "custom":
                case["params"] = {k: common.frs(mval(m, v)) for k, v in P.items()}
            else:
                case["sizes"] = cfg["sizes"]
                case["units"] = [[ANN[a], common.frs(mval(m, v["start"])), common.frs(mval(m, v["end"])), v["label"]] for (a, j), v in sorted(info.items())]
            return case
        ctx.notes["realize"] = rz
        ctx.notes["inputs"] = inputs
        # bound the unit-count draws and the number of duration redraws (cuts are counted)
        orig_normal = rng.normal
        state = dict(dur_draws=0, units_planned=0)
        nb_mu = s._avg_nb_units_per_annotator
        dur_mu = s._avg_unit_duration

        def normal(mu=0.0, sd=1.0, size=None):
            v = orig_normal(mu, sd)
            if mu is nb_mu or (not isinstance(mu, SymNum) and not isinstance(nb_mu, SymNum) and mu == nb_mu and sd == s._std_nb_units_per_annotator):
                ctx.solver.add(v.e > -(maxu + 1), v.e < maxu + 1)
                ctx.get_model()
            elif mu is dur_mu:
                state["dur_draws"] += 1
                if state["dur_draws"] > len(gt_names) * maxu + MAXREDRAW:
                    raise core.Cut("duration-redraws>%d" % MAXREDRAW)
            return v
        rng.normal = normal
        smp = s.sample_from_continuum
        ctx.notes["inputs"] = inputs + [r[3] for r in rng.log if r[0] == "normal"]
        obls = [Obl("sample-non-empty", smp.num_units >= 1 and bool(smp), rz),
                Obl("annotators==ground-truth", list(smp.annotators) == sorted(gt_names), rz)]
        for a, u in smp:
            obls.append(Obl("unit-longer-than-precision", SymBool(lift(u.segment.end) - lift(u.segment.start) > lift(PREC)), rz))
            obls.append(Obl("label-in-categories", u.annotation in cats, rz))
        # ---- data-flow, read off the RNG log
        log = list(rng.log)
        pos = 0
        generated = {}
        ok_shape = True
        for ai, a in enumerate(sorted(gt_names)):
            if pos >= len(log) or log[pos][0] != "normal":
                ok_shape = False
                break
            _, mu, sd, v = log[pos]
            pos += 1
            obls.append(Obl("count-draw-uses-(avg_nb,std_nb)", core.sym_and(core.eq(mu, s._avg_nb_units_per_annotator), core.eq(sd, s._std_nb_units_per_annotator)), rz))
            # number of gap draws that follow = planned unit count
            k = 0
            last = 0
            units = []
            while pos < len(log) and log[pos][0] == "normal" and _is(log[pos][1], s._avg_gap, log[pos][2], s._std_gap) and \
                    not (_is(log[pos][1], s._avg_nb_units_per_annotator, log[pos][2], s._std_nb_units_per_annotator) and _count_next(log, pos, s)):
                gap = log[pos][3]
                pos += 1
                durs_ = []
                while pos < len(log) and log[pos][0] == "normal" and _is(log[pos][1], s._avg_unit_duration, log[pos][2], s._std_unit_duration) \
                        and (not durs_ or _redraw_possible(log, pos)):
                    durs_.append(log[pos][3])
                    pos += 1
                    if pos < len(log) and log[pos][0] == "choice":
                        break
                if not durs_ or pos >= len(log) or log[pos][0] != "choice":
                    ok_shape = False
                    break
                ch = log[pos]
                pos += 1
                start = last + gap
                end = start + abs(durs_[-1])
                units.append((start, end, ch[1][ch[3]]))
                obls.append(Obl("label-draw-uses-(categories,weights)", [str(x) for x in ch[1]] == cats and _weights_ok(ch[2], weights), rz))
                for dd in durs_[:-1]:
                    obls.append(Obl("redrawn-only-when-too-short", SymBool(lift(abs(dd)) <= lift(PREC)), rz))
                last = end
                k += 1
            generated[a] = units
            trunc = core.s_int(v)
            want = abs(trunc)
            if ai == 0 or not any(generated[b] for b in sorted(gt_names)[:ai]):
                want = core.s_max(1, want)
            obls.append(Obl("unit-count==|trunc(count draw)|(>=1 while empty)", core.eq(want, k), rz))
            if not ok_shape:
                break
        obls.append(Obl("rng-call-sequence-has-the-documented-shape", ok_shape and pos == len(log), rz))
        if ok_shape:
            for a in sorted(gt_names):
                got = [(u.segment.start, u.segment.end, u.annotation) for u in smp._annotations[a]]
                for (st, en, lab) in generated[a]:
                    ex = z3.Or(*[z3.And(lift(g[0]) == lift(st), lift(g[1]) == lift(en), z3.BoolVal(g[2] == lab)) for g in got]) if got else z3.BoolVal(False)
                    obls.append(Obl("unit==(prev end + gap draw, + |duration draw|, label draw)", SymBool(ex), rz))
                obls.append(Obl("no-unit-beyond-the-generated-ones", len(got) <= len(generated[a]), rz))
        if E.get("measured"):
            obls.append(Obl("measured:avg_nb==mean-units-per-annotator", core.approx(s._avg_nb_units_per_annotator, P["avg_nb"]), rz))
            obls.append(Obl("measured:avg_dur==mean-duration", core.eq(s._avg_unit_duration, P["avg_dur"]), rz))
            std_args = [xs for xs, _ in ns.np.std_calls]
            obls.append(Obl("measured:std_dur==std(durations)", any(len(xs) == len(durs) and all(core.eq(x, d_).e is not None and
                            z3.is_true(z3.simplify(core.eq(x, d_).e)) for x, d_ in zip(xs, durs)) and sv is s._std_unit_duration for xs, sv in ns.np.std_calls), rz))
            obls.append(Obl("measured:weights==label-frequencies", _weights_ok(list(s._categories_weight), weights), rz))
            obls.append(Obl("measured:categories==reference-categories", [str(x) for x in s._categories] == cats, rz))
        return obls
    return h


def _is(mu, p_mu, sd, p_sd):
    def same(a, b):
        if a is b:
            return True
        if isinstance(a, SymNum) or isinstance(b, SymNum):
            return isinstance(a, SymNum) and isinstance(b, SymNum) and z3.is_true(z3.simplify(a.e == b.e))
        return a == b
    return same(mu, p_mu) and same(sd, p_sd)


def _count_next(log, pos, s):
    """disambiguation when count and gap parameters coincide syntactically: never the case for distinct symbols"""
    return False


def _redraw_possible(log, pos):
    return True


def _weights_ok(p, weights):
    if weights is None:
        return p is None
    if p is None:
        return False
    return len(p) == len(weights) and all(abs(float(a) - float(b)) < 1e-12 for a, b in zip(p, weights))


# ---------------------------------------------------------------------------------------------
def replay(case):
    """Real build with numpy.random mocked by the model's draws.  Reproduced iff the sample is invalid
    OR differs from the documented generative process run on the same draws (count = |trunc(N(avg_nb,
    std_nb))| (>= 1 while empty), start = previous end + N(avg_gap, std_gap), duration = |N(avg_dur,
    std_dur)| redrawn while <= precision, label = choice(categories, p=weights)) OR a draw was
    requested with other parameters than the documented ones."""
    import numpy as np
    import pygamma_agreement as pa
    import pyannote.core.segment as pseg
    from pygamma_agreement.sampler import StatisticalContinuumSampler
    from unittest import mock
    F = lambda x: float(Fraction(x))     # noqa: E731
    PREC = pseg.SEGMENT_PRECISION
    draws = list(case["draws"])
    calls = []

    def normal(mu=0.0, sd=1.0, size=None):
        while draws and draws[0][0] != "normal":
            draws.pop(0)
        if not draws:
            raise RuntimeError("replay ran out of recorded normal draws")
        v = F(draws.pop(0)[1])
        calls.append(("normal", float(mu), float(sd), v))
        return v

    def choice(seq, size=None, replace=True, p=None):
        if not draws or draws[0][0] != "choice":
            raise RuntimeError("replay expected a choice draw")
        i_ = draws.pop(0)[1]
        calls.append(("choice", [str(x) for x in seq], None if p is None else [float(x) for x in p], str(list(seq)[i_])))
        return list(seq)[i_]
    s = StatisticalContinuumSampler()
    if case["mode"] == "custom":
        P = {k: F(v) for k, v in case["params"].items()}
        anns = [f"g{i}" for i in range(case["nann"])]
        weights = [0.25, 0.75] if case["weights"] else None
        s.init_sampling_custom(anns, P["avg_nb"], P["std_nb"], P["avg_gap"], P["std_gap"], P["avg_dur"], P["std_dur"], ["x", "y"], weights)
        cats = ["x", "y"]
        gt = anns
    else:
        c = common.real_continuum(dict(units=case["units"], annotators=ANN[:len(case["sizes"])]))
        gt = None if case["gt"] is None else [ANN[i] for i in case["gt"]]
        s.init_sampling(c, gt)
        cats = list(c.categories)
        gt = gt or list(c.annotators)
        durs = [u.segment.end - u.segment.start for _, u in c]
        labs = [u.annotation for _, u in c]
        nbs = [len(c._annotations[a]) for a in c.annotators]
        # measured parameters, recomputed independently (the gap statistic is the code's own definition)
        P = dict(avg_nb=float(np.mean(nbs)), std_nb=float(np.std(nbs)), avg_dur=float(np.mean(durs)), std_dur=float(np.std(durs)),
                 avg_gap=float(s._avg_gap), std_gap=float(s._std_gap))
        weights = [labs.count(x) / len(labs) for x in cats]
    bad = []
    try:
        with mock.patch("numpy.random.normal", normal), mock.patch("numpy.random.choice", choice):
            smp = s.sample_from_continuum
    except RuntimeError as ex:
        return dict(reproduced=None, detail=str(ex))
    except Exception as ex:     # noqa: BLE001
        return dict(reproduced=True, detail="sample_from_continuum raised " + repr(ex)[:300])
    if smp.num_units < 1:
        bad.append("empty sample")
    if list(smp.annotators) != sorted(gt):
        bad.append(f"annotators {list(smp.annotators)} != ground truth {sorted(gt)}")
    for a, u in smp:
        if not (u.segment.end - u.segment.start > PREC):
            bad.append(f"unit {u} not longer than the segment precision")
        if u.annotation not in cats:
            bad.append(f"label {u.annotation!r} not a category")
    # documented generative process on the same draw sequence
    it = iter(calls)

    def close(a, b):
        return abs(a - b) <= 1e-9 * max(1.0, abs(a), abs(b))

    def nxt(kind, mu=None, sd=None):
        try:
            cll = next(it)
        except StopIteration:
            bad.append(f"documented process needs another {kind} draw, the code made none")
            raise
        if cll[0] != kind:
            bad.append(f"documented process expects a {kind} draw, the code made a {cll[0]} draw")
            raise StopIteration
        if kind == "normal" and not (close(cll[1], mu) and close(cll[2], sd)):
            bad.append(f"normal drawn with ({cll[1]}, {cll[2]}), documented parameters ({mu}, {sd})")
        if kind == "choice":
            if cll[1] != [str(x) for x in cats]:
                bad.append(f"label drawn from {cll[1]}, categories are {cats}")
            if (weights is None) != (cll[2] is None) or (weights is not None and any(not close(a, b) for a, b in zip(cll[2], weights))):
                bad.append(f"label drawn with weights {cll[2]}, documented weights {weights}")
        return cll[3]
    expected = {}
    try:
        empty = True
        for a in sorted(gt):
            k = abs(int(nxt("normal", P["avg_nb"], P["std_nb"])))
            if empty:
                k = max(1, k)
            last = 0.0
            us = set()
            for _ in range(k):
                start = last + nxt("normal", P["avg_gap"], P["std_gap"])
                end = start + abs(nxt("normal", P["avg_dur"], P["std_dur"]))
                while end - start <= PREC:
                    end = start + abs(nxt("normal", P["avg_dur"], P["std_dur"]))
                lab = nxt("choice")
                us.add((start, end, lab))
                last = end
                empty = False
            expected[a] = us
        if next(it, None) is not None:
            bad.append("the code made more draws than the documented process")
    except StopIteration:
        pass
    if not bad:
        for a in sorted(gt):
            got = {(u.segment.start, u.segment.end, u.annotation) for u in smp._annotations[a]}
            if got != expected.get(a):
                bad.append(f"{a}: units {sorted(got, key=str)} differ from the documented process {sorted(expected.get(a, []), key=str)}")
    return dict(reproduced=bool(bad), detail="; ".join(bad[:3])[:600])
