"""C17 -- Alignment.check / SoftAlignment.check accept exactly partitions / covers."""
import itertools
from fractions import Fraction

import z3

from symx import core
from symx.core import Obl, SymNum, SymBool, lift, lb, mval
from . import common
from .common import ANN

META = dict(
    level="model_checking",
    technique="bounded symbolic execution (z3) of Alignment.check, SoftAlignment.check and the check_validity constructor path; slots filled by symbolic selectors; real set/Counter/SortedDict run on symbolic units",
    design_ref="section 4 / C17",
    claim="For every continuum shape in the bound (symbolic coordinates), every number of unitary alignments in the bound and EVERY way of filling each "
          "slot with {empty, any unit of the continuum - of either annotator, i.e. moved / re-slotted / duplicated / dropped -, a fresh unit with "
          "independent coordinates}, in every listing order: Alignment.check returns iff every (annotator, unit) of the continuum occurs, by value, "
          "exactly once among the slots (alignments that additionally repeat a couple foreign to the continuum may be accepted or rejected - the statement does not decide), and otherwise raises SetPartitionError; SoftAlignment.check returns iff each occurs at least once and "
          "otherwise raises SetPartitionError (no other exception type); the outcome is the same for the reversed and rotated order of unitary "
          "alignments and for the constructor with check_validity=True.",
    trusted="z3; the hash stand-in (all symbolic numbers hash alike) makes real set/Counter/SortedDict decide by ==; independent oracle counts occurrences by value",
    bounds=dict(quick="continua (1,1),(2,1) x 1..2 unitary alignments (+ (1,1) x 3); labels all 'x'", thorough="+ (2,2) x 2, (2,1) x 3, mixed labels"),
    outside="more than 2 annotators in the candidate alignment; > 3 unitary alignments",
    stubs=["Segment.__hash__ = constant", "slot contents = symbolic selector over {empty, continuum units, fresh unit}"],
    assumptions=["segments longer than SEGMENT_PRECISION", "units of one annotator listed by increasing start"],
    cfg_budget_s=dict(quick=240, thorough=900),
)


def configs(tier):
    out = []
    shapes = [((1, 1), 1), ((1, 1), 2), ((2, 1), 1), ((2, 1), 2)]
    for soft in (False, True):
        out.append(dict(key=f"{'soft' if soft else 'strict'},sizes=(1, 1),unitary=1,then-continuum-edited-and-re-checked", sizes=[1, 1], k=1, soft=soft, history=True, cost=500))
    # one annotator holding two units on the SAME segment with different labels (distinct units that tie on position), one of them
    # repeated with the other one in between / before / after: slots are (a0, a1) per unitary alignment; 1 = a0's 'x' unit, 2 = its 'y' twin
    for soft in (False, True):
        for a0 in ((1, 2, 1), (2, 1, 2), (1, 1, 2), (1, 2, 2), (2, 1, 1), (2, 2, 1)):
            fixed = [a0[0], 3, a0[1], 0, a0[2], 0]
            out.append(dict(key=f"{'soft' if soft else 'strict'},coinciding-twin-units,a0-slots={a0}", sizes=[2, 1], k=3, soft=soft, fixed=fixed, coincide=True, cost=50))
        out.append(dict(key=f"{'soft' if soft else 'strict'},coinciding-twin-units,valid", sizes=[2, 1], k=2, soft=soft, fixed=[1, 3, 2, 0], coincide=True, cost=50))
    # unitary alignments that have no slot at all for one annotator of the continuum (built before that annotator joined, say): its units are missing
    for soft in (False, True):
        out.append(dict(key=f"{'soft' if soft else 'strict'},n-tuples-without-a-slot-for-the-last-annotator", sizes=[1, 1, 1], k=1, soft=soft, fixed=[1, 2, 3], drop_columns=[2], cost=20))
        out.append(dict(key=f"{'soft' if soft else 'strict'},n-tuples-without-a-slot-for-the-first-annotator", sizes=[1, 1, 1], k=1, soft=soft, fixed=[1, 2, 3], drop_columns=[0], cost=20))
    if tier == "thorough":
        shapes += [((1, 1), 3), ((2, 2), 1), ((2, 2), 2)]
    for sizes, k in shapes:
        for soft in (False, True):
            nopt = sum(sizes) + 2
            if k == 1:
                out.append(dict(key=f"{'soft' if soft else 'strict'},sizes={sizes},unitary={k}", sizes=list(sizes), k=k, soft=soft,
                                cost=nopt ** (2 * k)))
            else:
                # the first two slot selectors are fixed per configuration (splits one big decision tree over the cores)
                for f0 in range(nopt):
                    for f1 in range(nopt):
                        out.append(dict(key=f"{'soft' if soft else 'strict'},sizes={sizes},unitary={k},first-slots={f0},{f1}", sizes=list(sizes),
                                        k=k, soft=soft, fixed=[f0, f1], cost=nopt ** (2 * k - 2)))
    return out


def harness(cfg, ns):
    sizes, k, soft = tuple(cfg["sizes"]), cfg["k"], cfg["soft"]
    al, co, Segment = ns.al, ns.co, ns.Segment
    n = len(sizes)

    def h(ctx):
        if cfg.get("coincide"):
            c = co.Continuum()
            st0, en0, st1, en1 = ctx.fresh("s0_"), ctx.fresh("e0_"), ctx.fresh("s1_"), ctx.fresh("e1_")
            ctx.solver.add(en0.e - st0.e > lift(ns.pseg.SEGMENT_PRECISION), en1.e - st1.e > lift(ns.pseg.SEGMENT_PRECISION))
            ctx.solver.add(st0.e >= -64, en0.e <= 64, st1.e >= -64, en1.e <= 64)
            c.add(ANN[0], Segment(st0, en0), "x")
            c.add(ANN[0], Segment(st0, en0), "y")
            c.add(ANN[1], Segment(st1, en1), "x")
            info = {(0, 0): dict(start=st0, end=en0, label="x"), (0, 1): dict(start=st0, end=en0, label="y"), (1, 0): dict(start=st1, end=en1, label="x")}
            ctx.model = None
        else:
            c, info = common.build_continuum(ns, ctx, sizes, coords="sym", labels="x")
        cunits = [(a, u) for a, u in c]                    # (annotator, Unit) of the continuum
        if cfg.get("history") or (k == 1 and not cfg.get("coincide")):
            for v in info.values():                        # so that the units added later (5000.., 9000..) are genuinely new
                ctx.solver.add(v["start"].e >= -64, v["end"].e <= 64)
        inputs = [v[kk] for v in info.values() for kk in ("start", "end")]
        slots = []          # (annotator of the slot, start, end) for non-empty slots
        desc = []
        uas = []
        for u in range(k):
            tup = []
            for a in range(n):
                opts = ["none"] + list(range(len(cunits))) + ["foreign"]
                fixed = cfg.get("fixed") or []
                slot_no = u * n + a
                ch = fixed[slot_no] if slot_no < len(fixed) else ctx.choose(len(opts), tag=f"sel{u}_{a}")
                o = opts[ch]
                if o == "none":
                    tup.append((ANN[a], None))
                    desc.append((u, a, "none"))
                    continue
                if o == "foreign":
                    st, en = ctx.fresh(f"fs{u}_{a}_"), ctx.fresh(f"fe{u}_{a}_")
                    ctx.solver.add(en.e - st.e > lift(ns.pseg.SEGMENT_PRECISION))
                    if cfg.get("history") or k == 1 or cfg.get("coincide"):
                        ctx.solver.add(st.e >= -64, en.e <= 64)
                    ctx.model = None
                    unit = co.Unit(Segment(st, en), "x")
                    inputs += [st, en]
                    desc.append((u, a, "fresh", st, en))
                else:
                    unit = cunits[o][1]
                    st, en = unit.segment.start, unit.segment.end
                    desc.append((u, a, "unit", o))
                tup.append((ANN[a], unit))
                slots.append((ANN[a], st, en, unit.annotation))
            if cfg.get("drop_columns"):
                dropped = {ANN[a] for a in cfg["drop_columns"]}
                tup = [x for x in tup if x[0] not in dropped]
                slots = [x for x in slots if x[0] not in dropped]
            uas.append(al.UnitaryAlignment(tup))
        ctx.notes["inputs"] = inputs

        def rz(m):
            d = []
            for x in desc:
                if x[2] == "fresh":
                    d.append([x[0], x[1], "fresh", common.frs(mval(m, x[3])), common.frs(mval(m, x[4]))])
                else:
                    d.append(list(x))
            return dict(kind="check", history=bool(cfg.get("history")), soft=soft, sizes=list(sizes), k=k, drop_columns=cfg.get("drop_columns"),
                        units=[[ANN[a], common.frs(mval(m, v["start"])), common.frs(mval(m, v["end"])), v.get("label", "x")] for (a, j), v in sorted(info.items())],
                        slots=d)
        ctx.notes["realize"] = rz
        cls = al.SoftAlignment if soft else al.Alignment

        def outcome(order, via_ctor=False):
            try:
                if via_ctor:
                    cls(order, c, check_validity=True)
                else:
                    cls(order, c).check()
                return "ok"
            except al.SetPartitionError:
                return "SetPartitionError"
            except Exception as ex:     # noqa: BLE001
                return type(ex).__name__

        res = outcome(list(uas))
        # oracle: occurrences by value of every (annotator, unit) of the continuum
        conds = []
        for (an, unit) in cunits:
            cnt = z3.IntVal(0)
            for (an2, s2, e2, lab2) in slots:
                if an2 == an and lab2 == unit.annotation:
                    cnt = cnt + z3.If(z3.And(lift(s2) == lift(unit.segment.start), lift(e2) == lift(unit.segment.end)), 1, 0)
            conds.append(cnt >= 1 if soft else cnt == 1)
        want = z3.And(*conds)
        # (annotator, unit) couples that are NOT of the continuum and occur twice: the statement's two clauses
        # ("succeeds iff every unit of the continuum occurs once" / "fails when a unit occurs twice") pull in
        # opposite directions, so neither outcome is demanded there.
        rep_foreign = []
        for i1, (a1, s1, e1, l1) in enumerate(slots):
            for (a2, s2, e2, l2) in slots[i1 + 1:]:
                if a1 == a2 and l1 == l2:
                    is_cont = z3.Or(*[z3.And(lift(s1) == lift(u.segment.start), lift(e1) == lift(u.segment.end)) for (an, u) in cunits if an == a1 and u.annotation == l1] + [z3.BoolVal(False)])
                    rep_foreign.append(z3.And(lift(s1) == lift(s2), lift(e1) == lift(e2), z3.Not(is_cont)))
        amb = z3.Or(*rep_foreign) if (rep_foreign and not soft) else z3.BoolVal(False)
        ok = z3.BoolVal(res == "ok")
        obls = [Obl("valid-" + ("cover" if soft else "partition") + "-is-accepted", SymBool(z3.Implies(z3.And(want, z3.Not(amb)), ok)), rz),
                Obl("missing-or-repeated-unit-is-rejected", SymBool(z3.Implies(z3.Not(want), z3.Not(ok))), rz),
                Obl("failure-is-SetPartitionError", res in ("ok", "SetPartitionError"), rz)]
        if k > 1:
            for nm, order in (("reversed", list(reversed(uas))), ("rotated", uas[1:] + uas[:1])):
                obls.append(Obl(f"same-outcome-in-{nm}-order", outcome(order) == res, rz))
        obls.append(Obl("constructor-check_validity==check", outcome(list(uas), via_ctor=True) == res, rz))
        # an alignment that carries ANOTHER continuum (the same one plus a far-away unit) and is checked against c explicitly: the
        # verdict is the one for the continuum handed to check()
        # (only where coordinates are bounded or the alignment is small: the far-away unit must not multiply the paths)
        if cfg.get("history") or cfg.get("coincide") or k == 1:
            other = c.copy()
            other.add(ANN[0], Segment(core.const(9000), core.const(9001)), "x")
            try:
                cls(list(uas), other).check(c)
                res_explicit = "ok"
            except al.SetPartitionError:
                res_explicit = "SetPartitionError"
            except Exception as ex:     # noqa: BLE001
                res_explicit = type(ex).__name__
            obls.append(Obl("check(continuum)-judges-against-the-continuum-it-is-given", res_explicit == res, rz))
        if not cfg.get("history"):
            return obls
        # history: the same alignment object checked again after the continuum gained a unit it does not hold -> must now be rejected
        Aobj = cls(list(uas), c)
        try:
            Aobj.check()
        except Exception:       # noqa: BLE001
            pass
        c.add(ANN[0], Segment(core.const(5000), core.const(5001)), "x")
        try:
            Aobj.check()
            again = "ok"
        except al.SetPartitionError:
            again = "SetPartitionError"
        except Exception as ex:     # noqa: BLE001
            again = type(ex).__name__
        obls.append(Obl("re-check after the continuum gained a unit is rejected", again == "SetPartitionError", rz))
        return obls
    return h


def real_checks(tier):
    """concrete cross-check of what the symbolic model renders ideally: units whose bounds differ only beyond the 6th significant digit
    (hour-long recordings with millisecond time stamps) are distinct units for the checks"""
    return [dict(kind="near-identical", name="check / soft check tell apart units that differ beyond 6 significant digits")]


def _near_identical():
    import pygamma_agreement as pa
    from pygamma_agreement.alignment import UnitaryAlignment, Alignment, SoftAlignment, SetPartitionError
    from pyannote.core import Segment
    c = pa.Continuum()
    u1, u2 = pa.Unit(Segment(3605.412, 3605.9), "uh"), pa.Unit(Segment(3605.414, 3605.9), "uh")
    v1 = pa.Unit(Segment(3605.4, 3606.0), "uh")
    for u in (u1, u2):
        c.add("a0", u.segment, u.annotation)
    c.add("a1", v1.segment, v1.annotation)
    bad = []

    def outcome(cls, uas):
        try:
            cls(uas, c).check()
            return "ok"
        except SetPartitionError:
            return "rejected"
        except Exception as ex:     # noqa: BLE001
            return type(ex).__name__
    full = [UnitaryAlignment([("a0", u1), ("a1", v1)]), UnitaryAlignment([("a0", u2), ("a1", None)])]
    dropped = [UnitaryAlignment([("a0", u1), ("a1", v1)])]
    doubled = [UnitaryAlignment([("a0", u1), ("a1", v1)]), UnitaryAlignment([("a0", u1), ("a1", None)])]
    for cls in (Alignment, SoftAlignment):
        for order in (full, list(reversed(full))):
            if outcome(cls, order) != "ok":
                bad.append(f"{cls.__name__}: valid alignment over near-identical units {outcome(cls, order)}")
        if outcome(cls, dropped) != "rejected":
            bad.append(f"{cls.__name__}: alignment missing one of two near-identical units {outcome(cls, dropped)}")
        if outcome(cls, doubled) != "rejected":
            bad.append(f"{cls.__name__}: alignment repeating one near-identical unit and missing the other {outcome(cls, doubled)}")
    return dict(reproduced=bool(bad), detail="; ".join(bad[:3]))


def replay(case):
    if case.get("kind") == "near-identical":
        return _near_identical()
    import pygamma_agreement as pa
    from pygamma_agreement.alignment import UnitaryAlignment, Alignment, SoftAlignment, SetPartitionError
    from pyannote.core import Segment
    F = lambda x: float(Fraction(x))     # noqa: E731
    c = common.real_continuum(dict(units=case["units"], annotators=ANN[:len(case["sizes"])]))
    cunits = [(a, u) for a, u in c]
    n, k = len(case["sizes"]), case["k"]
    tups = [[None] * n for _ in range(k)]
    for x in case["slots"]:
        u, a = x[0], x[1]
        if x[2] == "none":
            tups[u][a] = (ANN[a], None)
        elif x[2] == "fresh":
            tups[u][a] = (ANN[a], pa.Unit(Segment(F(x[3]), F(x[4])), "x"))
        else:
            tups[u][a] = (ANN[a], cunits[x[3]][1])
    if case.get("drop_columns"):
        dropped = {ANN[a] for a in case["drop_columns"]}
        tups = [[x for x in t if x is not None and x[0] not in dropped] for t in tups]
    uas = [UnitaryAlignment(t) for t in tups]
    cls = SoftAlignment if case["soft"] else Alignment

    def outcome(order, ctor=False):
        try:
            if ctor:
                cls(order, c, check_validity=True)
            else:
                cls(order, c).check()
            return "ok"
        except SetPartitionError:
            return "SetPartitionError"
        except Exception as ex:     # noqa: BLE001
            return type(ex).__name__
    counts = {}
    for t in tups:
        for a, u in t:
            if u is not None:
                counts[(a, u)] = counts.get((a, u), 0) + 1
    want = all((counts.get((a, u), 0) >= 1) if case["soft"] else (counts.get((a, u), 0) == 1) for a, u in cunits)
    amb = (not case["soft"]) and any(v > 1 and k not in set(cunits) for k, v in counts.items())
    res = outcome(list(uas))
    bad = []
    if (res == "ok") != want and not (want and amb):
        bad.append(f"check outcome {res}, but the alignment {'is' if want else 'is not'} a {'cover' if case['soft'] else 'partition'}")
    if res not in ("ok", "SetPartitionError"):
        bad.append(f"check raised {res}")
    for order in (list(reversed(uas)), uas[1:] + uas[:1]):
        if outcome(order) != res:
            bad.append("outcome depends on the order of unitary alignments")
    if outcome(list(uas), ctor=True) != res:
        bad.append("constructor check_validity differs from check()")
    other = c.copy()
    other.add(ANN[0], Segment(9000.0, 9001.0), "x")
    try:
        cls(list(uas), other).check(c)
        res_explicit = "ok"
    except SetPartitionError:
        res_explicit = "SetPartitionError"
    except Exception as ex:     # noqa: BLE001
        res_explicit = type(ex).__name__
    if res_explicit != res:
        bad.append(f"an alignment built with another continuum and checked with check(c) gives {res_explicit}, check() on c gives {res}")
    if not case.get("history", True):
        return dict(reproduced=bool(bad), detail="; ".join(bad[:3]))
    Aobj = cls(list(uas), c)
    try:
        Aobj.check()
    except Exception:       # noqa: BLE001
        pass
    c.add(ANN[0], Segment(5000.0, 5001.0), "x")
    try:
        Aobj.check()
        bad.append("alignment still accepted after the continuum gained a unit it does not hold")
    except SetPartitionError:
        pass
    except Exception as ex:     # noqa: BLE001
        bad.append(f"re-check raised {type(ex).__name__}")
    return dict(reproduced=bool(bad), detail="; ".join(bad[:3]))
