"""C09 -- disorder and gamma are invariant under renaming, translation and scaling; delta_empty scales disorders."""
import itertools
from fractions import Fraction

import z3

from symx import core, cpstub
from symx.core import Obl, SymNum, SymBool, lift, lb, mval
from . import common, pipeline
from .common import ANN

META = dict(
    level="model_checking",
    technique="solver queries (z3) on the symbolically executed dissimilarity closures (translation / scaling / delta-scaling / label-renaming identities) and bounded symbolic execution of the alignment pipeline run twice in one path (original and transformed continuum)",
    design_ref="section 4 / C09",
    claim="Kernel level, for all real coordinates, shifts t, factors c > 0, alpha, beta >= 0, delta_empty > 0 (no size bound: loop-free): positional and "
          "combined d_mat/d are unchanged by translation and by scaling of all times, and are multiplied by c when delta_empty is multiplied by c in all "
          "components; absolute values depend on label equality only, ordinal/precomputed ones on the sorted index only. Pipeline level, for every size "
          "vector in the bound, every permutation / renaming of the annotators, all pair values: the optimal disorder is the same term; with every "
          "pair value and delta_empty multiplied by c every disorder is multiplied by c; with the real positional / combined dissimilarity and "
          "symbolic coordinates the best-alignment disorder of the translated (symbolic shift) and of the scaled (factors 1/4 and 3) continuum equals the original's. "
          "Gamma level: compute_gamma run twice in one path, every alignment disorder of the second run c (1/4, 3) times the first run's, any precision level in (0,1) or none: "
          "same number of chance samples, observed and expected disorder multiplied by c, gamma unchanged.",
    trusted="z3 (nlsat); MIP stub contract; numpy.std homogeneous of degree 1 (stub contract of the gamma-level configurations); gamma's invariance under renaming / translation / time scaling follows from "
            "the disorders' invariance (every disorder entering compute_gamma is one of those proved invariant) - an argument, not a solver result; "
            "the large continua named in the quantifier (2x60, 3x15, 5x5) are reached only through this compositional argument",
    bounds=dict(quick="(label bijections include a label renamed to '' and unlabelled units) pipeline: sizes (1,1),(2,1),(2,2),(1,1,1) with all annotator permutations; end-to-end real dissimilarities: translation on (1,1),(2,1), scaling on (1,1); gamma under delta-scaling: n_samples 1-2, <= 2 extra samples, c in {1/4, 3}",
                thorough="+ (2,1,1),(3,1),(1,1,1,1) permutations; end-to-end scaling on (2,1); end-to-end real dissimilarities on (2,2),(1,1,1)"),
    outside="float32 rounding (translation by large offsets loses precision in float32: real arithmetic here); continua beyond the bound",
    stubs=["cvxpy/CBC/GLPK = contract stub", "numba.njit = identity", "np float arrays = object arrays of z3 reals"],
    assumptions=["c > 0", "delta_empty > 0", "alpha, beta >= 0", "segments longer than SEGMENT_PRECISION"],
    cfg_budget_s=dict(quick=240, thorough=900),
)


def configs(tier):
    out = []
    for d in ("positional", "combined"):
        for tr in ("translate", "scale", "delta-scale"):
            out.append(dict(key=f"kernel,{d},{tr}", kind="kernel", dissim=d, tr=tr, cost=30))
    # categorical dissimilarities used on their own scale with delta_empty as well (and ignore positions altogether)
    for d in ("absolute", "ordinal", "levenshtein"):
        for tr in ("delta-scale", "translate"):
            out.append(dict(key=f"kernel,{d}-alone,{tr}", kind="kernel", dissim=d, tr=tr, cost=30))
    out.append(dict(key="kernel,absolute,label-bijection", kind="labels", dissim="absolute", cost=5))
    out.append(dict(key="kernel,ordinal,order-preserving-renaming", kind="labels", dissim="ordinal", cost=10))
    sz = [(1, 1), (2, 1), (2, 2), (1, 1, 1)] + ([(2, 1, 1), (3, 1), (1, 1, 1, 1)] if tier == "thorough" else [])
    for s in sz:
        perms = [p for p in itertools.permutations(range(len(s))) if p != tuple(range(len(s)))]
        for p in perms[: (5 if tier == "quick" else 23)]:
            out.append(dict(key=f"pipeline,annotator-permutation,sizes={s},perm={p}", kind="perm", sizes=list(s), perm=list(p), cost=len(common.all_tuples(s)) ** 3))
        out.append(dict(key=f"pipeline,delta-scaling,sizes={s}", kind="dscale", sizes=list(s), cost=len(common.all_tuples(s)) ** 3))
    # gamma itself under delta-scaling: the whole of compute_gamma run twice in one path, every alignment disorder of the second run being c times
    # the corresponding one of the first (what the pipeline configurations above establish), with and without a precision level
    for cf in ("1/4", "3"):
        for n, prec in ((2, "numeric"), (1, "numeric"), (2, None)) if tier == "quick" else ((2, "numeric"), (1, "numeric"), (3, "numeric"), (2, None)):
            out.append(dict(key=f"gamma,delta-scale-by-{cf},n_samples={n},precision={prec}", kind="gscale", cfac=cf, n=n, prec=prec, extra=2, cost=400))
    for s in [(1, 1), (2, 1)] + ([(2, 2), (1, 1, 1)] if tier == "thorough" else []):
        for d in ("positional", "combined"):
            out.append(dict(key=f"end-to-end,{d},translate,sizes={s}", kind="e2e", dissim=d, tr="translate", sizes=list(s), cost=3000, split=16))
            # scaling end to end: the factor is concrete (a symbolic factor times symbolic coordinates is a product of two
            # symbols inside an already nonlinear formula: z3 answers unknown); the kernel-level identity above keeps it symbolic
            for cf in ("1/4", "3"):
                if tier == "quick" and sum(s) > 2:
                    continue        # scaled (2,1) needs ~100 s of nonlinear solving per configuration: thorough tier
                out.append(dict(key=f"end-to-end,{d},scale-by-{cf},sizes={s}", kind="e2e", dissim=d, tr="scale", cfac=cf, sizes=list(s), cost=3000, split=16))
    return out


def harness(cfg, ns):
    co, ds, Segment = ns.co, ns.ds, ns.Segment
    kind = cfg["kind"]

    def params(ctx):
        de = ctx.fresh("de")
        ctx.solver.add(de.e > 0)
        alpha, beta = ctx.fresh("alpha", lo=0), ctx.fresh("beta", lo=0)
        return de, alpha, beta

    def mk(dname, de, alpha, beta):
        if dname == "positional":
            return ds.PositionalSporadicDissimilarity(delta_empty=de)
        if dname == "absolute":
            return ds.AbsoluteCategoricalDissimilarity(delta_empty=de)
        if dname == "ordinal":
            return ds.OrdinalCategoricalDissimilarity(["x", "w", "y"], [0, 1, 4], delta_empty=de)
        if dname == "levenshtein":
            return ds.LevenshteinCategoricalDissimilarity(["x", "y", "xyz"], delta_empty=de)
        return ds.CombinedCategoricalDissimilarity(alpha=alpha, beta=beta, delta_empty=de)

    def two_units(ctx, f, labels=("x", "y")):
        """continuum with one unit per annotator, coordinates transformed by f"""
        c = co.Continuum()
        for a in range(2):
            c.add(ANN[a], Segment(f(COORD[a][0]), f(COORD[a][1])), labels[a])
        return c

    COORD = {}

    def h_kernel(ctx):
        de, alpha, beta = params(ctx)
        t = ctx.fresh("t")
        cfac = ctx.fresh("c")
        ctx.solver.add(cfac.e > 0)
        for a in range(2):
            s_, e_ = ctx.fresh(f"s{a}_"), ctx.fresh(f"e{a}_")
            ctx.solver.add(e_.e - s_.e > lift(ns.pseg.SEGMENT_PRECISION))
            COORD[a] = (s_, e_)
        tr = cfg["tr"]
        # transformed segments must still be valid segments
        if tr == "scale":
            ctx.solver.add((COORD[0][1].e - COORD[0][0].e) * cfac.e > lift(ns.pseg.SEGMENT_PRECISION),
                           (COORD[1][1].e - COORD[1][0].e) * cfac.e > lift(ns.pseg.SEGMENT_PRECISION))
        ctx.get_model()
        inputs = [de, alpha, beta, t, cfac] + [x for ab in COORD.values() for x in ab]
        ctx.notes["inputs"] = inputs
        ctx.notes["scales"] = [de, cfac]

        def rz(m):
            return dict(kind="kernel", dissim=cfg["dissim"], tr=tr, **{k: common.frs(mval(m, v)) for k, v in
                                                                        dict(de=de, alpha=alpha, beta=beta, t=t, c=cfac, s0=COORD[0][0], e0=COORD[0][1], s1=COORD[1][0], e1=COORD[1][1]).items()})
        ctx.notes["realize"] = rz
        obls = []
        for labels in (("x", "y"), ("x", "x")):
            D = mk(cfg["dissim"], de, alpha, beta)
            c0 = two_units(ctx, lambda x: x, labels)
            a1, a2 = D._build_arrays_continuum(c0)
            u1, u2 = [list(c0._annotations[ANN[a]])[0] for a in range(2)]
            base_m, base_d = D.d_mat(a1[0], a2[0]), D.d(u1, u2)
            if tr == "translate":
                c1 = two_units(ctx, lambda x: x + t, labels)
                D2, factor = D, 1
            elif tr == "scale":
                c1 = two_units(ctx, lambda x: x * cfac, labels)
                D2, factor = D, 1
            else:
                c1 = c0
                D2, factor = mk(cfg["dissim"], de * cfac, alpha, beta), cfac
            b1, b2 = D2._build_arrays_continuum(c1)
            v1, v2 = [list(c1._annotations[ANN[a]])[0] for a in range(2)]
            obls.append(Obl(f"d_mat-invariant-under-{tr}", core.eq(D2.d_mat(b1[0], b2[0]), base_m * factor), rz))
            obls.append(Obl(f"d-invariant-under-{tr}", core.eq(D2.d(v1, v2), base_d * factor), rz))
        return obls

    def h_labels(ctx):
        de = ctx.fresh("de")
        ctx.solver.add(de.e > 0)
        rz = lambda m: dict(kind="labels", dissim=cfg["dissim"], de=common.frs(mval(m, de)))     # noqa: E731
        ctx.notes["realize"] = rz
        obls = []
        if cfg["dissim"] == "absolute":
            D = ds.AbsoluteCategoricalDissimilarity(delta_empty=de)
            ren = {"x": "q", "y": "", "z": "m", None: None}          # arbitrary bijection (not order preserving; '' is a label like any other, unlabelled stays unlabelled)
            for l1, l2 in itertools.product(["x", "y", "z", None], repeat=2):
                vals = []
                for mp in (lambda v: v, lambda v: ren[v]):
                    c = co.Continuum()
                    c.add(ANN[0], Segment(0, 1), mp(l1))
                    c.add(ANN[1], Segment(2, 5), mp(l2))
                    ua = D._build_arrays_continuum(c)
                    us = [list(c._annotations[ANN[a]])[0] for a in range(2)]
                    vals.append((D.d_mat(ua[0][0], ua[1][0]), D.d(us[0], us[1])))
                obls.append(Obl("absolute: unchanged by any label bijection (d_mat)", core.eq(vals[0][0], vals[1][0]), rz))
                obls.append(Obl("absolute: unchanged by any label bijection (d)", core.eq(vals[0][1], vals[1][1]), rz))
        else:
            p = [ctx.fresh(f"p{i}_") for i in range(3)]
            ren = {"b": "", "d": "dz", "f": "x"}         # order-preserving renaming ('' sorts first)
            D1 = ds.OrdinalCategoricalDissimilarity(["d", "b", "f"], [p[1], p[0], p[2]], delta_empty=de)
            D2 = ds.OrdinalCategoricalDissimilarity(["x", "dz", ""], [p[2], p[1], p[0]], delta_empty=de)
            for l1, l2 in itertools.product("bdf", repeat=2):
                vals = []
                for D, mp in ((D1, lambda v: v), (D2, lambda v: ren[v])):
                    c = co.Continuum()
                    c.add(ANN[0], Segment(0, 1), mp(l1))
                    c.add(ANN[1], Segment(2, 5), mp(l2))
                    ua = D._build_arrays_continuum(c)
                    us = [list(c._annotations[ANN[a]])[0] for a in range(2)]
                    vals.append((D.d_mat(ua[0][0], ua[1][0]), D.d(us[0], us[1])))
                obls.append(Obl("ordinal: unchanged by order-preserving renaming and supply order (d_mat)", core.eq(vals[0][0], vals[1][0]), rz))
                obls.append(Obl("ordinal: unchanged by order-preserving renaming and supply order (d)", core.eq(vals[0][1], vals[1][1]), rz))
        return obls

    def h_perm(ctx):
        sizes, perm = tuple(cfg["sizes"]), cfg["perm"]
        n = len(sizes)
        E = pipeline.setup(ns, ctx, dict(sizes=list(sizes), dissim="abstract", backend="cbc"))
        rz0 = ctx.notes["realize"]

        def rz(m):
            cse = rz0(m)
            cse.update(kind="perm", perm=perm)
            return cse
        ctx.notes["realize"] = rz
        A = pipeline.run_alignment(ns, E, "best")
        # the same units under permuted / renamed annotators: annotator a of the original becomes 'r<perm[a]>'
        c2 = co.Continuum()
        names2 = {a: f"r{perm[a]}" for a in range(n)}
        for a in range(n):
            c2.add_annotator(names2[a])
        for (a, j), v in sorted(E["info"].items()):
            c2.add(names2[a], Segment(v["start"], v["end"]), v["label"])
        cpstub.reset()
        B = c2.get_best_alignment(E["D"])
        return [Obl("same-optimal-disorder-under-annotator-permutation/renaming", core.approx(B.disorder, A.disorder, A.disorder), rz),
                Obl("same-number-of-units", c2.num_units == E["c"].num_units, rz)]

    def h_dscale(ctx):
        sizes = tuple(cfg["sizes"])
        E = pipeline.setup(ns, ctx, dict(sizes=list(sizes), dissim="abstract", backend="cbc"))
        cfac = ctx.fresh("c")
        ctx.solver.add(cfac.e > 0)
        ctx.notes["inputs"] = list(ctx.notes["inputs"]) + [cfac]
        ctx.notes["scales"] = [E["de"], cfac]
        rz0 = ctx.notes["realize"]

        def rz(m):
            cse = rz0(m)
            cse.update(kind="dscale", c=common.frs(mval(m, cfac)))
            return cse
        ctx.notes["realize"] = rz
        A = pipeline.run_alignment(ns, E, "best")
        n1 = E["state"].problems[-1]["n"]
        table = E["table"]

        class Scaled(ns.ds.AbstractDissimilarity):
            def __init__(self):
                ns.ds.AbstractDissimilarity.__init__(self, categories=E["D"].categories, delta_empty=1.0)
                self.delta_empty = E["de"] * cfac
                self.categories = E["D"].categories
                self.d_mat = lambda u1, u2: table.val(int(u1[3]), int(u2[3])) * cfac

            def compile_d_mat(self):
                return lambda u1, u2: table.val(int(u1[3]), int(u2[3])) * cfac

            def d(self, a, b):
                return E["D"].d(a, b) * cfac
        cpstub.reset()
        B = E["c"].get_best_alignment(Scaled())
        n2 = cpstub.STATE.problems[-1]["n"]
        return [Obl("same-candidates-when-delta_empty-and-all-values-scale", n1 == n2, rz),
                Obl("disorder-multiplied-by-c", core.approx(B.disorder, A.disorder * cfac, A.disorder * cfac), rz)]

    def h_e2e(ctx):
        sizes = tuple(cfg["sizes"])
        E = pipeline.setup(ns, ctx, dict(sizes=list(sizes), dissim=cfg["dissim"], labels="xy", backend="cbc"))
        t = ctx.fresh("t")
        tr = cfg["tr"]
        if tr == "scale":
            cfac = core.const(Fraction(cfg["cfac"]))
        else:
            cfac = ctx.fresh("c")
            ctx.solver.add(cfac.e > 0)
        f = (lambda x: x + t) if tr == "translate" else (lambda x: x * cfac)
        if tr == "scale":
            for v in E["info"].values():
                ctx.solver.add((v["end"].e - v["start"].e) * cfac.e > lift(ns.pseg.SEGMENT_PRECISION))
        ctx.get_model()
        ctx.notes["inputs"] = list(ctx.notes["inputs"]) + [t]
        ctx.notes["scales"] = [E["de"]]
        rz0 = ctx.notes["realize"]

        def rz(m):
            cse = rz0(m)
            cse.update(kind="e2e", tr=tr, t=common.frs(mval(m, t)), c=common.frs(mval(m, cfac)))
            return cse
        ctx.notes["realize"] = rz
        A = pipeline.run_alignment(ns, E, "best")
        c2 = co.Continuum()
        for a in range(len(sizes)):
            c2.add_annotator(ANN[a])
        for (a, j), v in sorted(E["info"].items()):
            c2.add(ANN[a], Segment(f(v["start"]), f(v["end"])), v["label"])
        # lemma step: every pair value of the transformed continuum equals the original's (proved here, per path, by the
        # solver on the real closures; then used as a fact so that the comparison of the two optimal disorders is linear)
        obls = []
        ua1, ua2 = E["D"]._build_arrays_continuum(E["c"]), E["D"]._build_arrays_continuum(c2)
        for a in range(len(sizes)):
            for b in range(a):
                for i in range(sizes[a]):
                    for j in range(sizes[b]):
                        lemma = core.eq(E["D"].d_mat(ua1[a][i], ua1[b][j]), E["D"].d_mat(ua2[a][i], ua2[b][j]))
                        r, _ = ctx.check(z3.Not(lemma.e))
                        if r == "unsat":
                            ctx.solver.add(lemma.e)
                        obls.append(Obl(f"pair-value-invariant-under-{tr}", lemma if r != "unsat" else True, rz))
        cpstub.reset()
        B = c2.get_best_alignment(E["D"])
        return obls + [Obl(f"best-disorder-invariant-under-{tr}", core.approx(B.disorder, A.disorder, A.disorder), rz)]
    def h_gscale(ctx):
        from symx import stubs
        from . import c05
        al = ns.al
        cf = Fraction(cfg["cfac"])
        n = cfg["n"]
        rec = dict(inits=[], drawn_in_job=[])
        rng = stubs.RNG(ctx, max_draws=10)
        rec["rng"] = rng
        ns.np.random = rng
        ns.np.std_calls = []
        ns.np.ceil_max = n + cfg.get("extra", 0)
        state = dict(run=1, k=0)
        base, scaled_from = [], {}

        def spy(self, dissimilarity, *a):
            k = state["k"]
            state["k"] += 1
            if state["run"] == 1 or k >= len(base):
                d = ctx.fresh("obs" if getattr(self, "tag", None) == "input" else "ch!", lo=0)
                if getattr(self, "tag", None) != "input":
                    ctx.solver.add(d.e > 0)
                if state["run"] == 1:
                    base.append(d)
            else:
                d = base[k] * cf
                scaled_from[id(d)] = (base[k], d)
            return al.Alignment([], self, disorder=d)
        names = ("get_best_alignment", "get_best_soft_alignment", "get_fast_alignment")
        saved = {k: getattr(co.Continuum, k) for k in names}
        saved_ex = co.ThreadPoolExecutor
        for k in names:
            setattr(co.Continuum, k, spy)
        co.ThreadPoolExecutor = stubs.DeferredExecutor.make(rng=rng)
        undo_completion = stubs.install_completion_stubs(co)
        facade_std = ns.np.std
        sd_first = []

        def std(x, *a, **k):
            """numpy's std is homogeneous of degree 1: over c times the values of the first run's call it is c times that call's result"""
            xs = list(x.flat) if hasattr(x, "flat") else list(x)
            if state["run"] == 2 and sd_first and len(xs) == len(sd_first[0][0]) and \
                    all(id(v) in scaled_from and scaled_from[id(v)][0] is b for v, b in zip(xs, sd_first[0][0])):
                r = sd_first[0][1] * cf
                ns.np.std_calls.append((xs, r))
                return r
            r = facade_std(x, *a, **k)
            if state["run"] == 1:
                sd_first.append((xs, r))
            return r
        ns.np.std = std
        p = None
        if cfg["prec"] == "numeric":
            p = ctx.fresh("precision")
            ctx.solver.add(p.e > 0, p.e < 1)

        def rz(m):
            return dict(kind="gscale", c=cfg["cfac"], n=n, prec=(common.frs(mval(m, p)) if p is not None else None),
                        disorders=[common.frs(mval(m, d)) for d in base])
        ctx.notes["realize"] = rz
        try:
            c = co.Continuum()
            for a in ("a", "b", "c"):
                c.add(a, Segment(0, 1), "x")
            c.tag = "input"

            class D:
                delta_empty = 1

            class D2:
                delta_empty = cf
            r1 = c.compute_gamma(D(), n_samples=n, precision_level=p, sampler=c05.make_stub_sampler(ns, rec))
            state["run"], state["k"] = 2, 0
            r2 = c.compute_gamma(D2(), n_samples=n, precision_level=p, sampler=c05.make_stub_sampler(ns, rec))
        finally:
            for k, v in saved.items():
                setattr(co.Continuum, k, v)
            co.ThreadPoolExecutor = saved_ex
            undo_completion()
            del ns.np.std
        ctx.notes["inputs"] = list(base) + ([p] if p is not None else [])
        obls = [Obl("gamma,delta-scale: same number of chance samples", len(r1.chance_alignments) == len(r2.chance_alignments), rz),
                Obl("gamma,delta-scale: observed disorder multiplied by c", core.eq(r2.observed_disorder, r1.observed_disorder * cf), rz)]
        if len(r1.chance_alignments) == len(r2.chance_alignments):
            obls.append(Obl("gamma,delta-scale: expected disorder multiplied by c", core.eq(r2.expected_disorder, r1.expected_disorder * cf), rz))
            obls.append(Obl("gamma,delta-scale: gamma unchanged", core.eq(r2.gamma, r1.gamma), rz))
        return obls
    fn = dict(kernel=h_kernel, labels=h_labels, perm=h_perm, dscale=h_dscale, e2e=h_e2e, gscale=h_gscale)[kind]
    if kind in ("kernel", "e2e"):
        def forked_abs(ctx):
            core.ABS_FORKS[0] = True        # |x| resolved by a fork on the sign: the identities become pure rational-function identities
            try:
                return fn(ctx)
            finally:
                core.ABS_FORKS[0] = False
        return forked_abs
    return fn


# ---------------------------------------------------------------------------------------------
def _replay_gscale(case):
    """seeded gamma of a 3 x 4-unit continuum with delta_empty 1, 4 and 1/4 (powers of two: every float32 disorder scales exactly), with the
    precision level of the counterexample's kind: same number of samples, same gamma, disorders multiplied by c"""
    import numpy as np
    import pygamma_agreement as pa
    from pyannote.core import Segment
    c = pa.Continuum()
    for i, a in enumerate(("ann", "Bob", "cy")):
        for j in range(4):
            c.add(a, Segment(10 * j + 1.5 * i, 10 * j + 5 + i + (j % 2)), "xyz"[(i + j) % 3])
    bad = []
    for prec, n in ((0.05, 8), (0.02, 5), (None, 6)) if case.get("prec") is not None else ((None, 6), (0.05, 8)):
        res = {}
        for de in (1.0, 4.0, 0.25):
            np.random.seed(4242)
            r = c.compute_gamma(pa.CombinedCategoricalDissimilarity(delta_empty=de), n_samples=n, precision_level=prec)
            res[de] = (r.n_samples, float(r.gamma), float(r.observed_disorder), float(r.expected_disorder))
        for de in (4.0, 0.25):
            if res[de][0] != res[1.0][0]:
                bad.append(f"precision_level={prec}, n_samples={n}: {res[de][0]} chance samples with delta_empty={de}, {res[1.0][0]} with delta_empty=1 (same seed)")
            elif abs(res[de][1] - res[1.0][1]) > 1e-5 or abs(res[de][2] - de * res[1.0][2]) > 1e-5 * de or abs(res[de][3] - de * res[1.0][3]) > 1e-5 * de:
                bad.append(f"precision_level={prec}: (gamma, observed, expected) = {res[de][1:]} with delta_empty={de}, {res[1.0][1:]} with delta_empty=1")
    return dict(reproduced=bool(bad), detail="; ".join(bad[:3]))


def replay(case):
    if case.get("kind") == "gscale":
        return _replay_gscale(case)
    import numpy as np
    import pygamma_agreement as pa
    from pyannote.core import Segment
    F = lambda x: float(Fraction(x))     # noqa: E731
    bad = []

    def close(a, b):
        return abs(a - b) <= 1e-4 * max(abs(a), abs(b)) + 1e-7
    kind = case["kind"]
    if kind == "kernel":
        de, al_, be, t, c = (F(case[k]) for k in ("de", "alpha", "beta", "t", "c"))
        co_ = [(F(case["s0"]), F(case["e0"])), (F(case["s1"]), F(case["e1"]))]

        def mk(de_):
            if case["dissim"] == "absolute":
                return pa.AbsoluteCategoricalDissimilarity(delta_empty=de_)
            if case["dissim"] == "ordinal":
                return pa.OrdinalCategoricalDissimilarity(["x", "w", "y"], [0, 1, 4], delta_empty=de_)
            if case["dissim"] == "levenshtein":
                return pa.LevenshteinCategoricalDissimilarity(["x", "y", "xyz"], delta_empty=de_)
            return pa.PositionalSporadicDissimilarity(delta_empty=de_) if case["dissim"] == "positional" else \
                pa.CombinedCategoricalDissimilarity(alpha=al_, beta=be, delta_empty=de_)

        def both(D, f, labels):
            cc = pa.Continuum()
            for a in range(2):
                cc.add(ANN[a], Segment(f(co_[a][0]), f(co_[a][1])), labels[a])
            ua = D._build_arrays_continuum(cc)
            us = [list(cc._annotations[ANN[a]])[0] for a in range(2)]
            return float(D.d_mat(ua[0][0], ua[1][0])), float(D.d(us[0], us[1]))
        for labels in (("x", "y"), ("x", "x")):
            base = both(mk(de), lambda x: x, labels)
            if case["tr"] == "translate":
                got, fac = both(mk(de), lambda x: x + t, labels), 1
            elif case["tr"] == "scale":
                got, fac = both(mk(de), lambda x: x * c, labels), 1
            else:
                got, fac = both(mk(de * c), lambda x: x, labels), c
            for nm, g, b in (("d_mat", got[0], base[0]), ("d", got[1], base[1])):
                if not close(g, b * fac):
                    bad.append(f"{nm} after {case['tr']}: {g}, expected {b * fac}")
    elif kind == "labels":
        # the same sequence on the real build: ONE dissimilarity object, one fresh two-unit continuum per label pair
        import itertools
        de = F(case["de"])

        def both(D, l1, l2):
            cc = pa.Continuum()
            cc.add(ANN[0], Segment(0, 1), l1)
            cc.add(ANN[1], Segment(2, 5), l2)
            ua = D._build_arrays_continuum(cc)
            us = [list(cc._annotations[ANN[a]])[0] for a in range(2)]
            return float(D.d_mat(ua[0][0], ua[1][0])), float(D.d(us[0], us[1]))
        if case["dissim"] == "absolute":
            D = pa.AbsoluteCategoricalDissimilarity(delta_empty=de)
            ren = {"x": "q", "y": "", "z": "m", None: None}
            for l1, l2 in itertools.product(["x", "y", "z", None], repeat=2):
                a, b = both(D, l1, l2), both(D, ren[l1], ren[l2])
                want = de * (l1 != l2)
                for nm, v in (("d_mat", a[0]), ("d", a[1]), ("d_mat renamed", b[0]), ("d renamed", b[1])):
                    if not close(v, want):
                        bad.append(f"absolute ({l1},{l2}): {nm} = {v}, expected {want}")
        else:
            p_ = [0.0, 1.5, 4.0]
            ren = {"b": "", "d": "dz", "f": "x"}
            D1 = pa.OrdinalCategoricalDissimilarity(["d", "b", "f"], [p_[1], p_[0], p_[2]], delta_empty=de)
            D2 = pa.OrdinalCategoricalDissimilarity(["x", "dz", ""], [p_[2], p_[1], p_[0]], delta_empty=de)
            for l1, l2 in itertools.product("bdf", repeat=2):
                a, b = both(D1, l1, l2), both(D2, ren[l1], ren[l2])
                if not (close(a[0], b[0]) and close(a[1], b[1]) and close(a[0], a[1])):
                    bad.append(f"ordinal ({l1},{l2}): {a} vs renamed {b}")
    else:
        r0 = pipeline.replay_pipeline(dict(case, kind="pipeline"))
        if r0.get("reproduced") or case.get("construct_only"):
            return r0
        base = r0.get("disorder")
        c_, D, de, per, pair = pipeline.real_setup(dict(case))
        if kind == "perm":
            perm = case["perm"]
            c2 = pa.Continuum()
            names = case["annotators"]
            for a in range(len(names)):
                c2.add_annotator(f"r{perm[a]}")
            for a, s, e, lab in case["units"]:
                c2.add(f"r{perm[names.index(a)]}", Segment(F(s), F(e)), lab)
            got = float(c2.get_best_alignment(D).disorder)
            if not close(got, base):
                bad.append(f"disorder {got} after permuting annotators, {base} before")
        elif kind == "dscale":
            cf = F(case["c"])
            case2 = dict(case, de=common.frs(Fraction(case["de"]) * Fraction(case["c"])),
                         pairs={k: common.frs(Fraction(v) * Fraction(case["c"])) for k, v in case["pairs"].items()})
            r1 = pipeline.replay_pipeline(dict(case2, kind="pipeline"))
            if r1.get("reproduced"):
                return r1
            if not close(r1["disorder"], base * cf):
                bad.append(f"disorder {r1['disorder']} with delta_empty*{cf}, expected {base * cf}")
        else:
            t, cf = F(case["t"]), F(case["c"])
            f = (lambda x: x + t) if case["tr"] == "translate" else (lambda x: x * cf)
            c2 = pa.Continuum()
            for a in case["annotators"]:
                c2.add_annotator(a)
            for a, s, e, lab in case["units"]:
                c2.add(a, Segment(f(F(s)), f(F(e))), lab)
            got = float(c2.get_best_alignment(D).disorder)
            if not close(got, base):
                bad.append(f"disorder {got} after {case['tr']}, {base} before")
    return dict(reproduced=bool(bad), detail="; ".join(bad[:3]))
