#!/bin/bash
# proc_seed.sh cNN : confirm a wave-6 seed (background pytest) and run the check against it on a scratch copy
mkdir -p /dev/shm/own; p=$1; P=$(echo $p | tr c C); wt=/tmp/wt6_$p
git -C $wt diff -- pygamma_agreement > /dev/shm/own/$p.patch
(setsid nohup /verif/tools/confirm_seed.sh $p $wt > /dev/null 2>&1 &)
cd /verif && tools/with_mutant.py --patch /dev/shm/own/$p.patch -- ./check $P quick > /dev/shm/own/seed_$p.log 2>&1; echo "rc=$?" >> /dev/shm/own/seed_$p.log
grep -E "^(VIOLATION|  config|harness-error|KNOWN)" /dev/shm/own/seed_$p.log | cut -c1-300 | head -4; tail -2 /dev/shm/own/seed_$p.log | cut -c1-300
