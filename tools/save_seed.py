#!/usr/bin/env python3
"""development aid (wave-6 layout: worktree /tmp/wt6_cNN, confirmation in /tmp/confirm_wt6_cNN.txt): save_seed.py cNN '<needs>' '<caught_by ; separated>' '<strengthened or empty>'"""
import sys, os, json, shutil, subprocess
p, needs, caught, strengthened = sys.argv[1:5]
P = p.upper()
wt = f"/tmp/wt6_{p}"
d = f"/verif/seeded/S-{p}-6"
os.makedirs(d, exist_ok=True)
patch = subprocess.check_output(["git", "-C", wt, "diff", "--", "pygamma_agreement"]).decode()
assert patch.strip()
open(f"{d}/patch.diff", "w").write(patch)
shutil.copy(f"{wt}/demo_{p}.py", f"{d}/demo.py")
conf = open(f"/tmp/confirm_wt6_{p}.txt").read().splitlines()
pyt = [l for l in conf if "passed" in l or "failed" in l]
if os.path.exists(f"/tmp/confirm_wt6_{p}.pytest2.log"):
    pyt = [open(f"/tmp/confirm_wt6_{p}.pytest2.log").read().strip().splitlines()[-1]]
meta = dict(property=P, needs=needs, caught_by=[c.strip() for c in caught.split(";") if c.strip()])
if strengthened:
    meta["strengthened"] = strengthened
meta["origin"] = ("independent sub-agent (sixth wave: given the five earlier seeds of the property as 'already studied' and the list of excluded mechanisms; "
                  "asked for a change needing TWO conditions at once or an interaction between two public methods / options) with only the property text and a scratch worktree")
meta["confirmed"] = dict(demo_with_change=[l for l in conf if l.startswith("with-change")][0].replace("with-change demo rc=", "exit "),
                         demo_without_change=[l for l in conf if l.startswith("without-change")][0].replace("without-change demo rc=", "exit "),
                         test_suite_with_change=pyt[0] if pyt else "?", by="re-run by the author of /verif in the scratch worktree (tools/confirm_seed.sh)")
meta["ran"] = f"tools/with_mutant.py --patch seeded/S-{p}-6/patch.diff -- ./check {P} quick"
json.dump(meta, open(f"{d}/meta.json", "w"), indent=1)
print(d, meta["confirmed"])
