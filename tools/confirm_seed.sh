#!/bin/bash
# confirm a seed in its scratch worktree: demo fails with the change, passes without; test suite passes with the change
p=$1; wt=${2:-/tmp/wt_$p}; tag=$(basename $wt); cd $wt
PYTHONPATH=$wt timeout 900 /venv/bin/python demo_$p.py > /tmp/confirm_$tag.with.log 2>&1; echo "with-change demo rc=$?" > /tmp/confirm_$tag.txt
PYTHONPATH=$wt timeout 3000 /venv/bin/python -m pytest -q -p no:cacheprovider --timeout=900 --deselect tests/test_cli.py > /tmp/confirm_$tag.pytest.log 2>&1; tail -1 /tmp/confirm_$tag.pytest.log >> /tmp/confirm_$tag.txt
git diff -- pygamma_agreement > /tmp/confirm_$tag.patch; git checkout -- pygamma_agreement
PYTHONPATH=$wt timeout 900 /venv/bin/python demo_$p.py > /tmp/confirm_$tag.without.log 2>&1; echo "without-change demo rc=$?" >> /tmp/confirm_$tag.txt
git apply /tmp/confirm_$tag.patch
