#!/bin/bash
# runs every registered check at the given tier, one after the other; prints one summary line each
cd "$(dirname "$0")/.."
tier=${1:-quick}
rc=0
for p in $(python3 -c "import json;print(' '.join(c['property_id'] for c in json.load(open('MANIFEST.json'))['checks']))"); do
  s=$(date +%s)
  out=$(./check $p $tier 2>&1); r=$?
  echo "[$p rc=$r $(( $(date +%s) - s ))s] $(echo "$out" | grep -E "^$p $tier" | tail -1)"
  echo "$out" | grep -E "^(VIOLATION|KNOWN-FINDING|harness-error|note:)" | cut -c1-220 | head -6
  [ $r -ne 0 ] && rc=1
done
exit $rc
