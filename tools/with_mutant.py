#!/usr/bin/env python3
"""Development aid: run a command against a scratch copy of /repo carrying one textual mutation.
usage: with_mutant.py <relative file> <old text> <new text> -- <command...>
       with_mutant.py --patch <diff file> -- <command...>
The copy lives under /dev/shm and is deleted afterwards; the command sees it through VERIF_REPO."""
import os, shutil, subprocess, sys, tempfile
args = sys.argv[1:]
i = args.index("--")
spec, cmd = args[:i], args[i + 1:]
d = tempfile.mkdtemp(prefix="mut_", dir="/dev/shm")
try:
    shutil.copytree("/repo/pygamma_agreement", os.path.join(d, "pygamma_agreement"),
                    ignore=shutil.ignore_patterns("__pycache__"))
    shutil.copytree("/repo/tests", os.path.join(d, "tests"), ignore=shutil.ignore_patterns("__pycache__"))
    if spec[0] == "--patch":
        subprocess.check_call(["patch", "-p1", "-s", "-d", d, "-i", os.path.abspath(spec[1])])
    else:
        f, old, new = spec
        p = os.path.join(d, f)
        s = open(p).read()
        if s.count(old) != 1:
            sys.exit(f"mutation site found {s.count(old)} times")
        open(p, "w").write(s.replace(old, new))
    env = dict(os.environ, VERIF_REPO=d)
    sys.exit(subprocess.call(cmd, env=env))
finally:
    shutil.rmtree(d, ignore_errors=True)
