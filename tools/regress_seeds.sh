#!/bin/bash
# usage: tools/regress_seeds.sh <seed dirs...> ; runs each seed's own property check on a scratch copy
cd /verif
for s in "$@"; do
  pid=$(python3 -c "import json;print(json.load(open('$s/meta.json'))['property'])")
  d=/dev/shm/rg_$(basename $s)
  rm -rf $d; [ -d /dev/shm/repo_clean ] || { mkdir -p /dev/shm/repo_clean && git -C /repo archive HEAD | tar -x -C /dev/shm/repo_clean; }; cp -r /dev/shm/repo_clean $d
  (cd $d && patch -s -p1 < /verif/$s/patch.diff) || { echo "[$s] patch failed"; rm -rf $d; continue; }
  out=$(VERIF_REPO=$d VERIF_PROCS=4 timeout 1500 ./check $pid quick 2>&1); rc=$?
  echo "[$s $pid rc=$rc] $(echo "$out" | grep -E "^$pid quick" | tail -1 | cut -c1-120)"
  rm -rf $d
done
echo REGRESS-DONE
