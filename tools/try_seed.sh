#!/bin/bash
# Applies a seeded change to /repo, runs the given checks (default: the seed's own property), and undoes it straight afterwards.
# usage: tools/try_seed.sh seeded/<id> [tier] [Cxx ...]
cd "$(dirname "$0")/.."
seed=$1; tier=${2:-quick}; shift; shift
props="$@"
[ -z "$props" ] && props=$(python3 -c "import json;print(json.load(open('$seed/meta.json'))['property'])")
git -C /repo diff --quiet || { echo "/repo has uncommitted changes"; exit 2; }
git -C /repo apply "$PWD/$seed/patch.diff" || { echo "patch does not apply"; exit 2; }
trap 'git -C /repo checkout -- . ; git -C /verif checkout -- evidence >/dev/null 2>&1' EXIT
for p in $props; do
  out=$(./check $p $tier 2>&1); rc=$?
  echo "[$seed $p $tier rc=$rc] $(echo "$out" | grep -E "^$p $tier" | tail -1 | cut -c1-200)"
  echo "$out" | grep -E "^(VIOLATION|  config|harness-error|KNOWN)" | cut -c1-260 | head -5
done
