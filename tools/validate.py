#!/usr/bin/env python3
"""Validates MANIFEST.json and every evidence file against the schemas (run with python3-vt)."""
import json, glob, sys, jsonschema
jsonschema.validate(json.load(open('/verif/MANIFEST.json')), json.load(open('/root/.vp/MANIFEST.schema.json')))
S = json.load(open('/root/.vp/EVIDENCE.schema.json'))
for f in sorted(glob.glob('/verif/evidence/*.json')):
    jsonschema.validate(json.load(open(f)), S)
print('manifest + %d evidence files valid' % len(glob.glob('/verif/evidence/*.json')))
