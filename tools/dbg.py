#!/usr/bin/env python3
"""Development aid: run one configuration of one harness in-process.  usage: dbg.py C16 '<key substring>' [tier] [max_paths]"""
import json, os, sys, time
V = os.path.dirname(os.path.dirname(os.path.abspath(__file__)))
sys.path.insert(0, V)
import logging; logging.disable(logging.CRITICAL)
import importlib, warnings; warnings.filterwarnings("ignore")
from symx import core, build
pid, key = sys.argv[1], sys.argv[2]
tier = sys.argv[3] if len(sys.argv) > 3 else "quick"
mod = importlib.import_module("harness." + pid.lower())
ns = build.load()
for cfg in mod.configs(tier):
    if key in cfg["key"]:
        t = time.time()
        orig = core.Ctx.decide
        def dec(self, e, _o=orig):
            try:
                return _o(self, e)
            except core.Inconclusive:
                print("UNKNOWN at", str(z3.simplify(e))[:300]); print(self.solver.sexpr()[-3000:]) if os.environ.get("DUMP") else None
                raise
        import z3
        core.Ctx.decide = dec
        r = core.explore(mod.harness(cfg, ns), max_paths=int(sys.argv[4]) if len(sys.argv) > 4 else 100000, timeout_ms=int(os.environ.get("TO", "15000")))
        print(cfg["key"], dict(paths=r.paths, obl=r.obligations, dis=r.discharged, q=r.queries, solver_s=round(r.solver_s, 2), cuts=r.cuts, inc=r.inconclusive,
                               aborted=r.aborted, exc=r.exceptions, wall=round(time.time() - t, 2)))
        for v in r.violations[:5]:
            print("  VIOL", v["name"], v["known"], json.dumps(v["case"], default=str)[:600])
        for s in r.exc_samples[:2]:
            print(s)
        break
