#!/usr/bin/env python3
"""Regenerates MANIFEST.json from the harness modules' META (run with .venv/bin/python)."""
import importlib, json, os, sys
V = os.path.dirname(os.path.dirname(os.path.abspath(__file__)))
sys.path.insert(0, V)
props = [json.loads(l) for l in open(os.path.join(V, "properties.jsonl"))]
NA = json.load(open(os.path.join(V, "tools", "not_applicable.json")))
checks, na = [], []
for p in props:
    pid = p["id"]
    if not os.path.exists(os.path.join(V, "harness", pid.lower() + ".py")) or pid in NA:
        na.append(dict(property_id=pid, reason=NA.get(pid, "check not built yet in this round; design in DESIGN.md section 4 (to be replaced by a check or a final reason)")))
        continue
    m = importlib.import_module("harness." + pid.lower()).META
    checks.append(dict(
        property_id=pid,
        quick_cmd=f"./check {pid} quick",
        thorough_cmd=f"./check {pid} thorough",
        evidence_file=f"evidence/{pid}.json",
        replay_cmd_template="./check --replay {path}",
        engine="symx",
        level_claimed=dict(category=m.get("level", "model_checking"),
                           text=m["claim"], design_ref="DESIGN.md " + m.get("design_ref", "")),
        level_note=m["trusted"],
        technique=m["technique"],
    ))
man = dict(
    version=1,
    setup_cmd="./setup.sh",
    hooks=dict(guard="PYGAMMA_AGREEMENT_VERIF", enable="none needed: the symbolic build is created by import-time substitution inside the check process; /repo carries no instrumentation",
               baseline_off_cmd="cd /repo && /venv/bin/python -m pytest -ra -q -p no:cacheprovider --timeout=900 --continue-on-collection-errors",
               source_commits=[], add_only=True),
    engines=[dict(name="symx", path="symx/", serves_properties=[c["property_id"] for c in checks],
                  kind_free_text="bounded symbolic execution of the repository's Python source (numba kernels run as the plain Python they are written as) on z3 Real terms; path forking at every solver-decided branch; environment (cvxpy/CBC/GLPK, RNG, thread pool, I/O) replaced by nondeterministic contract stubs; counterexamples replayed on the real numba/cvxpy build")],
    checks=checks,
    not_applicable=na,
    notes="Every check: exit 0 = all decided obligations held within the stated bounds; exit 1 + VIOLATION line = counterexample that reproduces on the real build; exit 3 = harness error (never a VIOLATION). KNOWN-FINDING lines come from known_findings.json.",
)
json.dump(man, open(os.path.join(V, "MANIFEST.json"), "w"), indent=1)
print("checks:", [c["property_id"] for c in checks], "n/a:", [x["property_id"] for x in na])
