"""symx.driver -- runs one property's harness over its configurations, replays counterexamples on
the real build, applies the known-findings file, writes the evidence file and sets the exit code.

usage: python -m symx.driver <PROPERTY_ID> <quick|thorough>
       python -m symx.driver --replay <case.json>

exit 0  every decided obligation held (inconclusive share reported in the evidence)
exit 1  a violation that reproduces on the real build and is not a listed known finding
exit 3  harness error: counterexample that does not reproduce, vacuous harness, translator
        validation mismatch, internal error (never a VIOLATION line)
"""
import importlib
import json
import multiprocessing as mp
import os
import re
import subprocess
import sys
import tempfile
import time
import traceback

VERIF = os.path.dirname(os.path.dirname(os.path.abspath(__file__)))
REPO = os.environ.get("VERIF_REPO", "/repo")
PY = sys.executable


def _harness_module(pid):
    return importlib.import_module("harness." + pid.lower())


# ---------------------------------------------------------------------------------------------
# worker side
# ---------------------------------------------------------------------------------------------
def _run_config(args):
    pid, cfg, seed, budget_s = args[:4]
    prefixes = args[4] if len(args) > 4 else None
    global_deadline = args[5] if len(args) > 5 else None
    t0 = time.time()
    out = dict(cfg=cfg, key=cfg.get("key", json.dumps(cfg, sort_keys=True)))
    try:
        import logging
        logging.disable(logging.CRITICAL)
        from symx import core, build
        mod = _harness_module(pid)
        ns = build.load()
        h = mod.harness(cfg, ns)
        entered = []
        first = [True]

        def wrapped(ctx):
            if first[0]:
                first[0] = False
                r, fns = build.functions_entered(h, ctx)
                entered.extend(fns)
                return r
            return h(ctx)

        res = core.explore(wrapped, path_alarm_s=cfg.get("path_alarm_s", 300 if cfg.get("timeout_ms", 15000) <= 15000 else 1800), max_paths=cfg.get("max_paths", 100000),
                           timeout_ms=cfg.get("timeout_ms", 15000), seed=seed,
                           deadline=min(t0 + budget_s, global_deadline) if global_deadline else t0 + budget_s, prefixes=prefixes,
                           stop_when_pending=(cfg.get("split") if prefixes is None else None))
        out["more_prefixes"] = res.pending_prefixes
        d = dict(paths=res.paths, aborted=res.aborted, cuts=res.cuts, inconclusive=res.inconclusive,
                 obligations=res.obligations, discharged=res.discharged, by_solver=res.by_solver,
                 nontrivial_paths=res.nontrivial_paths, queries=res.queries, solver_s=round(res.solver_s, 3),
                 unknown=res.unknown, decisions=res.decisions, sym_decisions=res.sym_decisions,
                 violations=res.violations, samples=res.samples, truncated=res.truncated,
                 pending=getattr(res, "pending", 0), reached=res.reached, obl_names=res.obl_names,
                 functions=entered, exceptions=res.exceptions, exc_samples=res.exc_samples)
        out.update(d)
    except BaseException as ex:      # noqa: BLE001
        out["error"] = "".join(traceback.format_exception(type(ex), ex, ex.__traceback__))[-3000:]
    out["wall_s"] = round(time.time() - t0, 2)
    return out


# ---------------------------------------------------------------------------------------------
# real-build side (replay + translator validation); runs in a fresh interpreter, no fake numba
# ---------------------------------------------------------------------------------------------
def real_main(in_path, out_path):
    import warnings
    warnings.filterwarnings("ignore")
    sys.path.insert(0, REPO)
    sys.path.insert(0, VERIF)
    job = json.load(open(in_path))
    out = dict(replays=[], tv=None)
    mod = _harness_module(job["pid"])
    t0 = time.time()
    import pygamma_agreement  # noqa: F401  (real numba build; ~20 s)
    out["import_s"] = round(time.time() - t0, 1)
    src = os.path.realpath(os.path.dirname(pygamma_agreement.__file__))
    if src != os.path.realpath(os.path.join(REPO, "pygamma_agreement")):
        out["error"] = f"real build imported from {src}"
        json.dump(out, open(out_path, "w"))
        return
    for case in job.get("cases", []):
        r = dict(reproduced=None, detail="")
        try:
            r.update(_with_alarm(lambda: mod.replay(case), job.get("alarm_s", 60)))
            if r.get("timeout") and job.get("timeout_is_violation"):
                r["reproduced"] = True
                r["detail"] = "the real build did not return: " + r["detail"]
        except BaseException as ex:  # noqa: BLE001
            r = dict(reproduced=None, detail="replay crashed: " + repr(ex)[:300])
            # the counterexample says "the code under test raises <Type> in <function>": the same exception type coming out of the
            # repository's own code during the replay IS the reproduction
            ob = str(case.get("_obligation", "")) if isinstance(case, dict) else ""
            if ob.startswith("no-exception:") and ob.split(":", 1)[1].split("@")[0] == type(ex).__name__:
                tb, inside = ex.__traceback__, False
                while tb is not None:
                    inside = inside or os.path.realpath(tb.tb_frame.f_code.co_filename).startswith(os.path.realpath(os.path.join(REPO, "pygamma_agreement")))
                    tb = tb.tb_next
                if inside:
                    r = dict(reproduced=True, detail="real build raised " + repr(ex)[:300])
        out["replays"].append(r)
    if job.get("tv"):
        try:
            out["tv"] = mod.tv_real(job["tv"])
        except BaseException as ex:  # noqa: BLE001
            out["tv"] = dict(error=repr(ex)[:500] + traceback.format_exc()[-1500:])
    json.dump(out, open(out_path, "w"), default=str)


class _Alarm(BaseException):
    pass


def _with_alarm(fn, secs):
    import signal

    def on(sig, frm):
        raise _Alarm()

    old = signal.signal(signal.SIGALRM, on)
    signal.alarm(int(secs))
    try:
        return fn()
    except _Alarm:
        return dict(reproduced=None, timeout=True, detail=f"no return within {secs}s")
    finally:
        signal.alarm(0)
        signal.signal(signal.SIGALRM, old)


def _spawn_real(job):
    d = tempfile.mkdtemp(prefix="verif_real_")
    ip, op = os.path.join(d, "in.json"), os.path.join(d, "out.json")
    json.dump(job, open(ip, "w"), default=str)
    env = dict(os.environ)
    env.pop("NUMBA_DISABLE_JIT", None)
    p = subprocess.Popen([PY, "-m", "symx.driver", "--real", ip, op], cwd=VERIF, env=env,
                         stdout=subprocess.PIPE, stderr=subprocess.STDOUT)
    return p, op, d


def _collect_real(handle, timeout=900):
    p, op, d = handle
    try:
        outtxt, _ = p.communicate(timeout=timeout)
    except subprocess.TimeoutExpired:
        p.kill()
        return dict(error="real-build process timed out")
    try:
        r = json.load(open(op))
    except Exception:   # noqa: BLE001
        r = dict(error="real-build process failed: " + outtxt.decode(errors="replace")[-1500:])
    try:
        for f in os.listdir(d):
            os.unlink(os.path.join(d, f))
        os.rmdir(d)
    except OSError:
        pass
    return r


# ---------------------------------------------------------------------------------------------
# known findings
# ---------------------------------------------------------------------------------------------
def load_known(pid):
    path = os.path.join(VERIF, "known_findings.json")
    try:
        data = json.load(open(path))
    except FileNotFoundError:
        return [], []
    open_, fixed = [], []
    for e in data.get("findings", []):
        if e.get("property") != pid:
            continue
        (fixed if e.get("status") == "fixed" else open_).append(e)
    return open_, fixed


def match_known(v, cfg_key, open_findings):
    """A violation is a known finding iff the harness attributed it to a finding's input region
    (v['known'] == finding id) or a listed finding names this obligation and configuration."""
    for f in open_findings:
        if v.get("known") and v["known"] == f.get("id"):
            return f
        m = f.get("match")
        if m and not v.get("known"):
            if re.fullmatch(m.get("obligation", ".*"), v["name"]) and re.fullmatch(m.get("config", ".*"), cfg_key):
                if m.get("obligation") or m.get("config"):
                    return f
    return None


# ---------------------------------------------------------------------------------------------
# main
# ---------------------------------------------------------------------------------------------
def main(argv):
    if argv and argv[0] == "--real":
        real_main(argv[1], argv[2])
        return 0
    if argv and argv[0] == "--replay":
        return replay_main(argv[1])
    pid, tier = argv[0].upper(), (argv[1] if len(argv) > 1 else os.environ.get("VERIF_TIER", "quick"))
    seed = int(os.environ.get("VERIF_SEED", "0") or 0)
    t0 = time.time()
    sys.path.insert(0, VERIF)
    mod = _harness_module(pid)
    meta = mod.META
    cfgs = mod.configs(tier)
    if seed:
        import random
        random.Random(seed).shuffle(cfgs)
    cfgs.sort(key=lambda c: -c.get("cost", 1))
    # thorough tier: one overall wall budget (configurations still running then are reported truncated = inconclusive, never passed),
    # and big configurations are split over the cores by decision prefix
    total_budget = float(os.environ.get("VERIF_TOTAL_BUDGET_S", meta.get("total_budget_s", {}).get(tier, 0 if tier == "quick" else 900)))
    global_deadline = (t0 + total_budget) if total_budget else None
    if tier == "thorough":
        for c in cfgs:
            if c.get("cost", 0) >= 1000 and "split" not in c:
                c["split"] = 32
    budget = float(os.environ.get("VERIF_CFG_BUDGET_S", meta.get("cfg_budget_s", {}).get(tier, 240 if tier == "quick" else 900)))
    # real build in the background: translator validation
    tv_cases = mod.tv_cases(tier) if hasattr(mod, "tv_cases") else None
    real_handle = _spawn_real(dict(pid=pid, cases=[], tv=tv_cases)) if tv_cases else None
    from symx import build as _build
    _build.load()          # import the symbolic build once; forked workers inherit it
    ctx = mp.get_context("fork")
    results = []
    nproc = int(os.environ.get("VERIF_PROCS", os.cpu_count() or 4))
    with ctx.Pool(nproc, maxtasksperchild=cfg_tasks(meta)) as pool:
        import queue as _q
        doneq = _q.Queue()
        outstanding = 0
        for c in cfgs:
            pool.apply_async(_run_config, ((pid, c, seed, budget, None, global_deadline),), callback=doneq.put, error_callback=doneq.put)
            outstanding += 1
        raw = []
        while outstanding:
            r = doneq.get()
            outstanding -= 1
            if isinstance(r, BaseException):
                raw.append(dict(key="?", error=repr(r)))
                continue
            more = r.pop("more_prefixes", None) or []
            raw.append(r)
            # decision-tree split: the pending prefixes of a big configuration are explored by other workers
            chunk = max(1, len(more) // (2 * nproc) + (1 if len(more) % (2 * nproc) else 0)) if more else 1
            for i in range(0, len(more), chunk):
                pool.apply_async(_run_config, ((pid, r["cfg"], seed, budget, more[i:i + chunk], global_deadline),), callback=doneq.put, error_callback=doneq.put)
                outstanding += 1
        for r in _merge_by_key(raw):
            results.append(r)
            if os.environ.get("VERIF_VERBOSE"):
                print("  cfg", r["key"], {k: r.get(k) for k in ("paths", "obligations", "discharged", "wall_s", "cuts", "inconclusive", "truncated")},
                      "viol", [(v["name"], v["known"]) for v in r.get("violations", [])], r.get("error", "")[-600:],
                      ("\n".join(r.get("exc_samples", [])[:1]) if os.environ.get("VERIF_VERBOSE") == "2" else ""), flush=True)
    # translator validation (symbolic build in concrete mode vs real build)
    tv = dict(cases=0, mismatches=[], skipped=True)
    if tv_cases:
        real = _collect_real(real_handle)
        tv = compare_tv(mod, tv_cases, real)
    # replay violations on the real build
    viols = []
    for r in results:
        for v in r.get("violations", []):
            viols.append((r["key"], v))
    replays = {}
    # concrete cross-checks on the real build that the harness asks for regardless of the solver's findings (things the symbolic
    # model cannot see, e.g. the process hash seed); a failing one is reported exactly like a reproduced counterexample
    n_cross = 0
    if hasattr(mod, "real_checks"):
        for cse in mod.real_checks(tier):
            viols.append(("real-build-cross-check", dict(name="real-build-cross-check:" + cse.get("name", "?"), known=None, count=1, decisions=[], model={}, case=cse, cross=True)))
            n_cross += 1
    # cap the replay work: at most 4 per (config, obligation kind), 60 overall
    seen_kind, keep = {}, []
    for i, (key, v) in enumerate(viols):
        k = (key, v["name"].split("[")[0], v.get("known"))
        seen_kind[k] = seen_kind.get(k, 0) + 1
        if v.get("cross") or (seen_kind[k] <= meta.get("replays_per_kind", 2) and len(keep) < meta.get("replays_max", 60)):      # cross-checks always run
            keep.append(i)
    dropped = len(viols) - len(keep)
    viols = [viols[i] for i in keep]
    for _, v in viols:      # the replay may depend on which obligation the counterexample is for
        if isinstance(v.get("case"), dict) and not v.get("cross"):
            v["case"]["_obligation"] = v["name"]
    cases = [(i, v["case"]) for i, (_, v) in enumerate(viols) if v.get("case") and "realize_error" not in v["case"]]
    if cases:
        rr = _collect_real(_spawn_real(dict(pid=pid, cases=[c for _, c in cases], alarm_s=meta.get("replay_alarm_s", 60), timeout_is_violation=meta.get("timeout_is_violation", False))),
                           timeout=120 + len(cases) * meta.get("replay_alarm_s", 60))
        for (i, _), rep in zip(cases, rr.get("replays", [])):
            replays[i] = rep
        if rr.get("error"):
            print("harness-error: real build:", rr["error"][:500])
    open_f, fixed_f = load_known(pid)
    os.makedirs(os.path.join(VERIF, "evidence", "replay"), exist_ok=True)
    new_violations, known_hits, unreproduced = [], {}, []
    cross_failed = []
    confirmed_kinds = {(v["name"].split("[")[0], v.get("known")) for i, (key, v) in enumerate(viols)
                       if (replays.get(i) or {}).get("reproduced")}
    unconfirmed = 0
    for i, (key, v) in enumerate(viols):
        rep = replays.get(i)
        if v.get("cross") and not (rep or {}).get("reproduced"):
            if rep is None or rep.get("reproduced") is None:
                # a cross-check that did not reach a verdict must not look like one that passed
                cross_failed.append((v["name"], (rep or {}).get("detail", "no result")))
            continue                         # cross-check passed
        if rep is None or not rep.get("reproduced"):
            if (v["name"].split("[")[0], v.get("known")) in confirmed_kinds:
                # another counterexample to the same obligation reproduced on the real build; this model sits on a
                # floating-point knife edge (or its replay ran out of recorded draws): counted, not an error
                unconfirmed += 1
                continue
            unreproduced.append((key, v, rep))
            continue
        f = match_known(v, key, open_f)
        path = os.path.join(VERIF, "evidence", "replay", f"{pid}_{i}.json")
        json.dump(dict(property=pid, config=key, obligation=v["name"], case=v["case"], model=v["model"],
                       real_build=rep), open(path, "w"), indent=1, default=str)
        if f is not None:
            known_hits.setdefault(f["id"], (f, key, v, rep, path))
        else:
            new_violations.append((key, v, rep, path))
    # ------------------------------------------------------------------ verdict + evidence
    errors = [r for r in results if r.get("error")]
    tot = lambda k: sum(r.get(k, 0) or 0 for r in results)   # noqa: E731
    cuts, inconc = {}, {}
    for r in results:
        for k, n in (r.get("cuts") or {}).items():
            cuts[k] = cuts.get(k, 0) + n
        for k, n in (r.get("inconclusive") or {}).items():
            inconc[k] = inconc.get(k, 0) + n
    truncated = [r["key"] for r in results if r.get("truncated")]
    # vacuous = every path died on an infeasible assumption; a configuration whose paths all ended inconclusive (solver unknown)
    # or outside the bound is reported as inconclusive / cut, not as a harness error
    vacuous = [r["key"] for r in results if not r.get("error") and not r.get("reached") and not r.get("truncated")
               and not r.get("inconclusive") and not r.get("cuts") and not r.get("cfg", {}).get("may_be_vacuous")]
    functions = sorted({f for r in results for f in r.get("functions", [])})
    samples = []
    for r in results[:]:
        for s in r.get("samples", [])[:1]:
            samples.append(dict(config=r["key"], **s))
    samples = samples[:5]
    for key, v, rep, path in new_violations[:3]:
        samples.append(dict(config=key, violation=v["name"], model=v["model"], real_build=rep))
    harness_error = bool(errors or vacuous or tv["mismatches"] or (tot("discharged") == 0 and not new_violations and not known_hits))
    strict = os.environ.get("VERIF_STRICT") == "1"
    for fid, (f, key, v, rep, path) in sorted(known_hits.items()):
        print(f"KNOWN-FINDING: property={pid} {f['id']}: {f.get('what', '')} [config {key}, obligation {v['name']}, replay {os.path.relpath(path, VERIF)}]")
    shown = set()
    for key, v, rep, path in new_violations:
        kind = (key, v["name"].split("[")[0])
        if kind in shown or len(shown) >= 12:
            continue
        shown.add(kind)
        print(f"VIOLATION property={pid} replay={os.path.relpath(path, VERIF)}")
        print(f"  config={key} obligation={v['name']} real-build: {str(rep.get('detail'))[:300]}")
    if len(new_violations) > len(shown):
        print(f"  (+{len(new_violations) - len(shown)} further reproduced counterexamples under evidence/replay/)")
    for key, v, rep in unreproduced[:8]:
        harness_error = True
        print(f"harness-error: counterexample does not reproduce on the real build: config={key} obligation={v['name']} "
              f"case={json.dumps(v.get('case'), default=str)[:400]} real={json.dumps(rep, default=str)[:300]}")
    for nm, det in cross_failed:
        harness_error = True
        print(f"harness-error: {nm} did not reach a verdict: {str(det)[:300]}")
    for r in errors:
        print(f"harness-error: config {r['key']}: {r['error'][-1200:]}")
    for k in vacuous:
        print(f"harness-error: config {k}: no path reached an obligation (vacuous harness)")
    for mm in tv["mismatches"][:5]:
        print(f"harness-error: translator validation mismatch: {json.dumps(mm, default=str)[:500]}")
    if inconc or truncated or cuts:
        print(f"note: inconclusive={inconc} truncated_configs={truncated} cuts(outside bound)={cuts}")
    wall = round(time.time() - t0, 1)
    evaluations = tot("paths")
    ev = dict(
        property_id=pid, tier=tier, seed=seed, level=meta.get("level", "model_checking"),
        coverage=dict(
            states=max(1, evaluations), transitions=max(1, tot("sym_decisions")),
            traces_validated_against_impl=tv["cases"] + sum(1 for r in replays.values() if r.get("reproduced") is not None),
            evaluations=max(1, evaluations), distinct_nontrivial=tot("nontrivial_paths"),
            rule=("evaluation = one symbolically executed path (distinct by its decision prefix) of the harness over the real "
                  "source; non-trivial = the path took >= 1 solver-decided branch and >= 1 of its obligations needed a solver call "
                  "(was not constant after simplification)"),
            obligations=tot("obligations"), discharged=tot("discharged"), discharged_by_solver=tot("by_solver"),
            queries=tot("queries"), solver_s=round(sum(r.get("solver_s", 0) for r in results), 2),
            solver_unknown=tot("unknown"), configurations=len(results), configs=[r["key"] for r in results][:200],
            per_config=[{k: r.get(k) for k in ("key", "paths", "obligations", "discharged", "queries", "solver_s", "wall_s", "cuts", "truncated")} for r in results][:200],
            paths_cut_outside_bound=cuts, inconclusive=inconc, truncated_configs=truncated,
            paths_reaching_obligations=tot("reached"), obligation_kinds=_merge_counts(results, "obl_names"),
            functions_encoded=functions, bounds=meta.get("bounds", {}).get(tier, ""), outside_bounds=meta.get("outside", ""),
            stubs=meta.get("stubs", []), technique=meta.get("technique", ""),
            translator_validation=tv, samples=samples or [dict(note="no path sample recorded")],
            real_build_cross_checks=n_cross, counterexamples_replayed=len(replays) - n_cross, counterexamples_unconfirmed_same_kind_confirmed=unconfirmed, counterexamples_reproduced=sum(1 for r in replays.values() if r.get("reproduced")),
            known_findings_hit=sorted(known_hits), fixed_findings_listed=[f["id"] for f in fixed_f],
            exhaustive=not (truncated or inconc),
            explanation="bounded symbolic execution of the repository's source; see DESIGN.md " + meta.get("design_ref", ""),
        ),
        assumptions=meta.get("assumptions", []),
        wall_s=wall, violations=len(new_violations),
    )
    evdir = os.path.join(VERIF, "evidence") if os.path.realpath(REPO) == "/repo" else "/dev/shm/verif_scratch_evidence"
    os.makedirs(evdir, exist_ok=True)       # runs against a scratch copy (development aid) never touch the evidence
    json.dump(ev, open(os.path.join(evdir, f"{pid}.json"), "w"), indent=1, default=str)
    print(f"{pid} {tier}: configs={len(results)} paths={evaluations} obligations={tot('obligations')} discharged={tot('discharged')} "
          f"queries={tot('queries')} solver_s={ev['coverage']['solver_s']} tv_cases={tv['cases']} known={sorted(known_hits)} "
          f"new_violations={len(new_violations)} wall={wall}s")
    if new_violations:
        return 1
    if harness_error or (strict and (inconc or truncated)):
        return 3
    return 0


def _merge_by_key(raw):
    """results of the pieces of one split configuration are added up"""
    out = {}
    for r in raw:
        k = r.get("key", "?")
        if k not in out:
            out[k] = r
            continue
        a = out[k]
        for f in ("paths", "aborted", "obligations", "discharged", "by_solver", "nontrivial_paths", "queries", "unknown", "decisions",
                  "sym_decisions", "reached", "pending"):
            a[f] = (a.get(f) or 0) + (r.get(f) or 0)
        a["solver_s"] = round((a.get("solver_s") or 0) + (r.get("solver_s") or 0), 3)
        a["wall_s"] = round(max(a.get("wall_s") or 0, r.get("wall_s") or 0), 2)
        for f in ("cuts", "inconclusive", "obl_names", "exceptions"):
            d = dict(a.get(f) or {})
            for kk, v in (r.get(f) or {}).items():
                d[kk] = d.get(kk, 0) + v
            a[f] = d
        a["violations"] = (a.get("violations") or []) + (r.get("violations") or [])
        a["samples"] = ((a.get("samples") or []) + (r.get("samples") or []))[:3]
        a["exc_samples"] = ((a.get("exc_samples") or []) + (r.get("exc_samples") or []))[:3]
        a["functions"] = sorted(set(a.get("functions") or []) | set(r.get("functions") or []))
        a["truncated"] = bool(a.get("truncated") or r.get("truncated"))
        if r.get("error"):
            a["error"] = (a.get("error") or "") + r["error"]
    return list(out.values())


def cfg_tasks(meta):
    return meta.get("maxtasksperchild", 8)


def _merge_counts(results, k):
    out = {}
    for r in results:
        for a, n in (r.get(k) or {}).items():
            out[a] = out.get(a, 0) + n
    return out


def compare_tv(mod, tv_cases, real):
    """Translator validation: same concrete inputs through the symbolic build (concrete mode) and
    the real build must agree."""
    out = dict(cases=0, mismatches=[], skipped=False, real_import_s=real.get("import_s"))
    if real.get("error") or not real.get("tv") or (isinstance(real.get("tv"), dict) and real["tv"].get("error")):
        out["mismatches"].append(dict(error=real.get("error") or real.get("tv")))
        return out
    from symx import build
    ns = build.load()
    try:
        mine = mod.tv_sym(tv_cases, ns)
    except BaseException as ex:   # noqa: BLE001
        out["mismatches"].append(dict(error="symbolic build failed in concrete mode: " + repr(ex) + traceback.format_exc()[-800:]))
        return out
    theirs = real["tv"]
    if hasattr(mod, "tv_compare_hook"):
        mine, theirs = mod.tv_compare_hook(mine, theirs)
    for i, (a, b) in enumerate(zip(mine, theirs)):
        out["cases"] += 1
        if not _close(a, b):
            out["mismatches"].append(dict(case=tv_cases[i], symbolic_build=a, real_build=b))
    if len(mine) != len(theirs):
        out["mismatches"].append(dict(error="case count differs"))
    return out


def _close(a, b, tol=2e-5):
    if isinstance(a, (list, tuple)) and isinstance(b, (list, tuple)):
        return len(a) == len(b) and all(_close(x, y, tol) for x, y in zip(a, b))
    if isinstance(a, dict) and isinstance(b, dict):
        return a.keys() == b.keys() and all(_close(a[k], b[k], tol) for k in a)
    if isinstance(a, bool) or isinstance(b, bool) or a is None or b is None or isinstance(a, str) or isinstance(b, str):
        return a == b
    try:
        fa, fb = float(a), float(b)
    except (TypeError, ValueError):
        return a == b
    return abs(fa - fb) <= tol * max(1.0, abs(fa), abs(fb))


def replay_main(path):
    """Re-run one stored counterexample against the real build: exit 1 if it reproduces."""
    rec = json.load(open(path))
    pid = rec["property"]
    rr = _collect_real(_spawn_real(dict(pid=pid, cases=[rec["case"]])))
    rep = (rr.get("replays") or [dict(reproduced=None, detail=rr.get("error"))])[0]
    print(json.dumps(rep, indent=1, default=str))
    if rep.get("reproduced"):
        print(f"VIOLATION property={pid} replay={path}")
        return 1
    return 0 if rep.get("reproduced") is False else 3


if __name__ == "__main__":
    sys.exit(main(sys.argv[1:]))
