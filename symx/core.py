"""symx.core -- path-forking symbolic execution of plain Python on z3 terms.

One `Ctx` per path.  Numbers a user could vary are `SymNum` (z3 Real terms wrapped with
operator overloading); a Python-level branch on a `SymBool` calls `Ctx.decide`, which asks
the solver which sides are feasible under the current path condition, follows one and
queues the other.  `explore` re-executes the harness from the top for every queued
decision prefix until the decision tree is exhausted (or a stated path budget is hit, in
which case the run is reported as truncated = inconclusive, never as a pass).

Verdicts: an obligation is *discharged* on a path iff `pc AND NOT obligation` is unsat;
`sat` yields a model (concrete rationals); `unknown` is inconclusive.
"""
import fractions
import itertools
import random as _pyrandom
import math
import numbers
import time

import z3

INF = float("inf")


class PathAbort(BaseException):
    """The current path is infeasible (assumption unsatisfiable under the path condition)."""


class Cut(BaseException):
    """The path left the stated bound (unwinding cut); counted and reported, never a verdict."""

    def __init__(self, what="cut"):
        super().__init__(what)
        self.what = what


class PathTimeout(BaseException):
    """One path of the code under test ran longer than the per-path limit (a loop that never ends on these inputs)."""


class Inconclusive(BaseException):
    """Solver answered unknown / engine cannot model an operation."""

    def __init__(self, what="unknown"):
        super().__init__(what)
        self.what = what


class Unsupported(Inconclusive):
    pass


# --------------------------------------------------------------------------------------
# lifting
# --------------------------------------------------------------------------------------
_REALVAL_CACHE = {}


def _rv(fr):
    r = _REALVAL_CACHE.get(fr)
    if r is None:
        r = z3.RealVal(str(fr)) if not isinstance(fr, int) else z3.RealVal(fr)
        if len(_REALVAL_CACHE) < 5000:
            _REALVAL_CACHE[fr] = r
    return r


def lift(x):
    """Python / numpy number or SymNum -> z3 Real term (floats lifted as their exact binary value)."""
    if isinstance(x, SymNum):
        return x.e
    if isinstance(x, bool):
        return _rv(int(x))
    if isinstance(x, numbers.Integral):
        return _rv(int(x))
    if isinstance(x, fractions.Fraction):
        return _rv(x)
    if isinstance(x, numbers.Real):
        f = float(x)
        if math.isinf(f) or math.isnan(f):
            raise Unsupported("non-finite constant in arithmetic")
        return _rv(fractions.Fraction(f))
    if z3.is_expr(x):
        return x
    if hasattr(x, "_v"):            # uninitialised array element: arbitrary value
        return x._v().e
    raise TypeError(type(x))


def lb(o):
    if isinstance(o, SymBool):
        return o.e
    if z3.is_expr(o):
        return o
    return z3.BoolVal(bool(o))


def unwrap(x):
    if isinstance(x, (SymBool, SymNum)):
        return x.e
    if isinstance(x, bool):
        return z3.BoolVal(x)
    return x


def is_sym(x):
    return isinstance(x, (SymNum, SymBool))


def _isinf(o):
    return isinstance(o, float) and math.isinf(o) or (
        hasattr(o, "dtype") and not isinstance(o, SymNum) and getattr(o, "ndim", 1) == 0
        and isinstance(o, numbers.Real) and math.isinf(float(o)))


# --------------------------------------------------------------------------------------
# symbolic values
# --------------------------------------------------------------------------------------
class SymBool:
    __slots__ = ("e",)

    def __init__(self, e):
        self.e = e if z3.is_expr(e) else z3.BoolVal(bool(e))

    def __bool__(self):
        return Ctx.cur.decide(self.e)

    def __and__(self, o):
        return SymBool(z3.And(self.e, lb(o)))

    __rand__ = __and__

    def __or__(self, o):
        return SymBool(z3.Or(self.e, lb(o)))

    __ror__ = __or__

    def __invert__(self):
        return SymBool(z3.Not(self.e))

    def __eq__(self, o):
        return SymBool(self.e == lb(o))

    def __ne__(self, o):
        return SymBool(self.e != lb(o))

    __hash__ = None

    def __repr__(self):
        return f"SymBool({self.e})"


class SymNum:
    """Real-sorted symbolic number.  Integer-valued quantities are reals constrained integral."""
    __slots__ = ("e",)
    # all symbolic numbers hash alike: real set/dict/SortedSet/Counter then decide by ==, which forks
    __hash__ = lambda self: 0  # noqa: E731

    def __init__(self, e):
        self.e = e

    # -- arithmetic
    def _b(self, o, f):
        try:
            oe = lift(o)
        except TypeError:
            return NotImplemented
        return type(self)._mk(f(self.e, oe), self, o)

    def _rb(self, o, f):
        try:
            oe = lift(o)
        except TypeError:
            return NotImplemented
        return type(self)._mk(f(oe, self.e), o, self)

    np_kind = None      # 'float32' for values standing for numpy float32 scalars (see NPFloat32)

    @staticmethod
    def _mk(e, a=None, b=None):
        # numpy promotion: float32 combined with a Python number or another float32 stays float32
        if getattr(a, "np_kind", None) == "float32" or getattr(b, "np_kind", None) == "float32":
            return NPFloat32(e)
        return SymNum(e)

    def _same(self, e):
        return NPFloat32(e) if self.np_kind == "float32" else SymNum(e)

    def __add__(self, o):
        if _isinf(o):
            return o
        return self._b(o, lambda a, b: a + b)

    def __radd__(self, o):
        if _isinf(o):
            return o
        return self._rb(o, lambda a, b: a + b)

    def __sub__(self, o):
        if _isinf(o):
            return -o
        return self._b(o, lambda a, b: a - b)

    def __rsub__(self, o):
        if _isinf(o):
            return o
        return self._rb(o, lambda a, b: a - b)

    def __mul__(self, o):
        return self._b(o, lambda a, b: a * b)

    def __rmul__(self, o):
        return self._rb(o, lambda a, b: a * b)

    def __truediv__(self, o):
        if DIV_CHECK[0]:
            _div_guard(o)
        return self._b(o, lambda a, b: a / b)

    def __rtruediv__(self, o):
        if DIV_CHECK[0]:
            _div_guard(self)
        return self._rb(o, lambda a, b: a / b)

    # floor division / modulo of Python floats: floor(a / b), a - b * floor(a / b)  (z3's to_int is the floor)
    def __floordiv__(self, o):
        if DIV_CHECK[0]:
            _div_guard(o)
        return self._b(o, lambda a, b: z3.ToReal(z3.ToInt(a / b)))

    def __rfloordiv__(self, o):
        if DIV_CHECK[0]:
            _div_guard(self)
        return self._rb(o, lambda a, b: z3.ToReal(z3.ToInt(a / b)))

    def __mod__(self, o):
        if DIV_CHECK[0]:
            _div_guard(o)
        return self._b(o, lambda a, b: a - b * z3.ToReal(z3.ToInt(a / b)))

    def __rmod__(self, o):
        if DIV_CHECK[0]:
            _div_guard(self)
        return self._rb(o, lambda a, b: a - b * z3.ToReal(z3.ToInt(a / b)))

    def __neg__(self):
        return self._same(-self.e)

    def __pos__(self):
        return self

    def __abs__(self):
        if ABS_FORKS[0]:
            # sign-resolved absolute value: the path forks on the sign (keeps later queries free of if-then-else terms)
            return self if Ctx.cur.decide(self.e >= 0) else self._same(-self.e)
        return self._same(z3.If(self.e >= 0, self.e, -self.e))

    def __pow__(self, o):
        if isinstance(o, numbers.Integral) and 0 <= int(o) <= 6:
            r = SymNum(_rv(1))
            for _ in range(int(o)):
                r = r * self
            return r
        raise Unsupported("symbolic power with exponent %r" % (o,))

    def __rpow__(self, o):
        raise Unsupported("symbolic exponent")

    # -- comparisons
    def _c(self, o, f):
        if _isinf(o):
            big = float(o) > 0
            res = f(0, 1) if big else f(1, 0)
            return SymBool(z3.BoolVal(bool(res)))
        try:
            oe = lift(o)
        except TypeError:
            return NotImplemented
        return SymBool(f(self.e, oe))

    def __lt__(self, o):
        return self._c(o, lambda a, b: a < b)

    def __le__(self, o):
        return self._c(o, lambda a, b: a <= b)

    def __gt__(self, o):
        return self._c(o, lambda a, b: a > b)

    def __ge__(self, o):
        return self._c(o, lambda a, b: a >= b)

    def __eq__(self, o):
        r = self._c(o, lambda a, b: a == b)
        return SymBool(False) if r is NotImplemented else r

    def __ne__(self, o):
        r = self._c(o, lambda a, b: a != b)
        return SymBool(True) if r is NotImplemented else r

    # -- no silent realisation
    def __float__(self):
        raise Unsupported("float() realisation of a symbolic number")

    def __int__(self):
        raise Unsupported("int() realisation of a symbolic number")

    def __index__(self):
        return concretize(self)

    def astype(self, dt):  # numpy scalar API used by np.ceil(...).astype(np.int32)
        return self

    def __deepcopy__(self, memo):     # immutable
        return self

    def __copy__(self):
        return self

    def __repr__(self):
        return f"Sym({self.e})"


class NPFloat32(SymNum):
    """A symbolic number that stands for a numpy float32 scalar: same real value, but it carries the type
    tag that decides what json.dump / float-only consumers accept.  float() returns a plain SymNum."""
    __slots__ = ()
    np_kind = "float32"
    __hash__ = SymNum.__hash__


ABS_FORKS = [False]
DIV_CHECK = [False]     # harness switch: a division whose divisor can be 0 forks, and raises ZeroDivisionError on that side (Python / numba semantics)


def _div_guard(d):
    try:
        e = lift(d)
    except TypeError:
        return
    if Ctx.cur is not None and Ctx.cur.decide(e == 0):
        raise ZeroDivisionError("division by zero")


def concretize(x, what="index"):
    """Fork over the feasible integer values of x (costs one path per feasible value)."""
    ctx = Ctx.cur
    e = lift(x)
    e = z3.simplify(e)
    if z3.is_rational_value(e) or z3.is_int_value(e):
        fr = e.as_fraction()
        if fr.denominator != 1:
            raise Unsupported("non-integral value used as index")
        return int(fr)
    n = 0
    while True:
        m = ctx.get_model()
        v = m.eval(e, model_completion=True)
        fr = v.as_fraction()
        if fr.denominator != 1:
            # integrality is part of the harness' assumptions; enforce it and retry
            k = z3.Int(f"k!{next(ctx.freshc)}")
            ctx.assume(e == z3.ToReal(k))
            continue
        if ctx.decide(e == _rv(int(fr))):
            return int(fr)
        n += 1
        if n > ctx.max_concretize:
            raise Cut("concretize>%d" % ctx.max_concretize)


def real(name):
    return SymNum(z3.Real(name))


def const(v):
    return SymNum(lift(v))


def ite(c, a, b):
    return SymNum(z3.If(lb(c), lift(a), lift(b)))


def sym_and(*xs):
    return SymBool(z3.And(*[lb(x) for x in xs])) if xs else SymBool(True)


def sym_or(*xs):
    return SymBool(z3.Or(*[lb(x) for x in xs])) if xs else SymBool(False)


def sym_not(x):
    return SymBool(z3.Not(lb(x)))


def implies(a, b):
    return SymBool(z3.Implies(lb(a), lb(b)))


def approx(a, b, scale=1, eps=fractions.Fraction(1, 10 ** 9)):
    """|a - b| <= eps * scale: equality up to the rounding of *concrete* float sub-computations the
    code under test performs in Python/numpy floats (the oracle uses exact rationals)."""
    d = lift(a) - lift(b)
    bound = _rv(eps) * lift(scale)
    return SymBool(z3.And(d <= bound, -d <= bound))


def approx_le(a, b, scale=1, eps=fractions.Fraction(1, 10 ** 9)):
    """a <= b + eps * scale (see approx)."""
    return SymBool(lift(a) <= lift(b) + _rv(eps) * lift(scale))


def eq(a, b):
    """Obligation-level equality (never forks)."""
    if is_sym(a) or is_sym(b) or z3.is_expr(a) or z3.is_expr(b):
        if isinstance(a, SymBool) or isinstance(b, SymBool):
            return SymBool(lb(a) == lb(b))
        return SymBool(lift(a) == lift(b))
    return SymBool(a == b)


# --------------------------------------------------------------------------------------
# symbolic-aware builtins, installed as module globals of the repository's modules
# --------------------------------------------------------------------------------------
import builtins as _bi


def s_min(*args, **kw):
    if len(args) == 1 and not kw.get("key"):
        it = list(args[0])
        if not it:
            if "default" in kw:
                return kw["default"]
            return _bi.min(it)
        return _fold(it, True)
    if len(args) >= 2 and not kw:
        return _fold(list(args), True)
    return _bi.min(*args, **kw)


def s_max(*args, **kw):
    if len(args) == 1 and not kw.get("key"):
        it = list(args[0])
        if not it:
            if "default" in kw:
                return kw["default"]
            return _bi.max(it)
        return _fold(it, False)
    if len(args) >= 2 and not kw:
        return _fold(list(args), False)
    return _bi.max(*args, **kw)


def _fold(items, is_min):
    if not any(isinstance(x, SymNum) for x in items):
        return (_bi.min if is_min else _bi.max)(items)
    if not all(isinstance(x, (SymNum, numbers.Real)) for x in items):
        return (_bi.min if is_min else _bi.max)(items)   # e.g. Units: real comparison, forks
    acc = None
    for x in items:
        if _isinf(x):
            if (float(x) > 0) == is_min:
                continue            # +inf in a min / -inf in a max: neutral
            return x                # -inf in a min / +inf in a max: absorbing
        if acc is None:
            acc = x
        else:
            a, b = lift(acc), lift(x)
            # same tie behaviour as the builtin: the first of two equal values is kept
            acc = SymNum(z3.If(b < a, b, a) if is_min else z3.If(b > a, b, a))
    if acc is None:
        return items[0]
    return acc


def s_abs(x):
    return abs(x)


class _BuiltinTypeMeta(type):
    """lets the replacements of `int` / `float` still work as the second argument of isinstance()"""

    def __instancecheck__(cls, inst):
        return isinstance(inst, cls._real)

    def __call__(cls, *a, **k):
        return cls._fn(*a, **k)


def _s_int(x=0, *a):
    """int(): truncation toward zero; symbolic -> integral-valued SymNum tied to x by constraints."""
    if isinstance(x, SymNum):
        ctx = Ctx.cur
        k = z3.Int(f"trunc!{next(ctx.freshc)}")
        kr = z3.ToReal(k)
        ctx.solver.add(z3.If(x.e >= 0, z3.And(kr <= x.e, x.e < kr + 1), z3.And(kr >= x.e, x.e > kr - 1)))
        ctx.model = None
        return SymNum(kr)
    if isinstance(x, SymBool):
        return SymNum(z3.If(x.e, _rv(1), _rv(0)))
    return _bi.int(x, *a)


def _s_float(x=0.0):
    if isinstance(x, SymNum):
        return SymNum(x.e) if x.np_kind else x
    if isinstance(x, SymBool):
        return SymNum(z3.If(x.e, _rv(1), _rv(0)))
    return _bi.float(x)


class s_int(metaclass=_BuiltinTypeMeta):
    _real = _bi.int
    _fn = staticmethod(_s_int)


class s_float(metaclass=_BuiltinTypeMeta):
    _real = _bi.float
    _fn = staticmethod(_s_float)


def s_range(*a):
    return _bi.range(*[concretize(x) if isinstance(x, SymNum) else x for x in a])


def s_round(x, *a):
    if isinstance(x, SymNum):
        raise Unsupported("round() of a symbolic number")
    return _bi.round(x, *a)


BUILTIN_OVERRIDES = dict(min=s_min, max=s_max, abs=s_abs, int=s_int, float=s_float, range=s_range,
                         round=s_round)


# --------------------------------------------------------------------------------------
# context / exploration
# --------------------------------------------------------------------------------------
class TrackedSolver(z3.Solver):
    """z3.Solver whose `add` invalidates the owning context's cached model (harness code adds
    assumptions directly; a stale model must never steer a branch)."""
    owner = None

    def add(self, *args):
        z3.Solver.add(self, *args)
        if self.owner is not None:
            self.owner.model = None

    def add_keep_model(self, *args):
        z3.Solver.add(self, *args)


class Ctx:
    cur = None

    def __init__(self, prefix=(), timeout_ms=15000, seed=0):
        self.solver = TrackedSolver()
        self.solver.owner = self
        self.timeout_ms = timeout_ms
        self.solver.set("timeout", timeout_ms)
        if seed:
            self.solver.set("random_seed", seed % 1000)
        self.prefix = list(prefix)
        self.trace = []
        self.work = []
        self.model = None
        self.stats = dict(queries=0, solver_s=0.0, unknown=0, decisions=0, sym_decisions=0)
        self.freshc = itertools.count()
        self.names = {}
        self.notes = {}           # harness scratch (RNG log, captured problems ...)
        self.max_concretize = 64
        self.assumptions = 0
        self.decided = {}
        self._keep = []           # keeps decided terms alive so their ids are not reused
        self.fp_mode = False      # IEEE mode (symx.fp): every query goes to a fresh, non-incremental solver (bit-blasting tactic)

    # -- symbols
    def fresh(self, base, lo=None, hi=None, integer=False):
        k = self.names.get(base, 0)
        self.names[base] = k + 1
        name = f"{base}{k}" if k or base.endswith("_") else base
        if integer:
            v = SymNum(z3.ToReal(z3.Int(name)))
        else:
            v = SymNum(z3.Real(name))
        if lo is not None:
            self.solver.add(v.e >= lift(lo))
        if hi is not None:
            self.solver.add(v.e <= lift(hi))
        return v

    def fresh_bool(self, base):
        k = self.names.get(base, 0)
        self.names[base] = k + 1
        return SymBool(z3.Bool(f"{base}{k}" if k else base))

    # -- solver access
    def check(self, *extra, want_model=False, timeout_ms=None):
        t = time.time()
        if timeout_ms is not None:
            self.solver.set("timeout", timeout_ms)
        self.stats["queries"] += 1
        if self.fp_mode:
            s = z3.Solver()
            s.set("timeout", timeout_ms if timeout_ms is not None else self.timeout_ms)
            s.add(*self.solver.assertions())
            if extra:
                s.add(*extra)
            r = str(s.check())
            m = s.model() if r == "sat" and (want_model or not extra) else None
            self.stats["solver_s"] += time.time() - t
            if r == "unknown":
                self.stats["unknown"] += 1
            return r, m
        if extra:
            self.solver.push()
            self.solver.add(*extra)
        r = str(self.solver.check())
        m = None
        if r == "sat" and (want_model or not extra):
            m = self.solver.model()
        if extra:
            self.solver.pop()
        if timeout_ms is not None:
            self.solver.set("timeout", self.timeout_ms)
        self.stats["solver_s"] += time.time() - t
        if r == "unknown":
            self.stats["unknown"] += 1
        return r, m

    def get_model(self):
        if self.model is None:
            r, m = self.check()
            if r == "unsat":
                raise PathAbort()
            if r != "sat":
                raise Inconclusive("unknown on path condition")
            self.model = m
        return self.model

    def assume(self, e):
        e = lb(e) if not isinstance(e, bool) else z3.BoolVal(e)
        self.assumptions += 1
        old = self.model
        self.solver.add_keep_model(e)
        if old is not None:
            v = old.eval(e, model_completion=True)
            if z3.is_true(v):
                return
        self.model = None
        self.get_model()          # raises PathAbort when the assumption is unsatisfiable here

    def decide(self, e):
        e = z3.simplify(e)
        self.stats["decisions"] += 1
        if z3.is_true(e):
            return True
        if z3.is_false(e):
            return False
        # a condition already decided on this path (hash-consed term id) needs no solver and no new fork
        eid = e.get_id()
        if eid in self.decided:
            return self.decided[eid]
        self.stats["sym_decisions"] += 1
        i = len(self.trace)
        if i < len(self.prefix):
            v = self.prefix[i]
            self.model = None
        else:
            m = self.get_model()
            mv = m.eval(e, model_completion=True)
            if z3.is_true(mv) or z3.is_false(mv):
                v = z3.is_true(mv)
                other = z3.Not(e) if v else e
                r, _ = self.check(other)
                if r == "unknown":
                    raise Inconclusive("unknown at branch")
                if r == "sat":
                    self.work.append(self.trace + [not v])
            else:
                rt, mt = self.check(e, want_model=True)
                rf, _ = self.check(z3.Not(e))
                if "unknown" in (rt, rf):
                    raise Inconclusive("unknown at branch")
                if rt == "sat" and rf == "sat":
                    v = True
                    self.work.append(self.trace + [False])
                    self.model = mt
                elif rt == "sat":
                    v = True
                    self.model = mt
                elif rf == "sat":
                    v = False
                    self.model = None
                else:
                    raise PathAbort()
        self.trace.append(v)
        self.solver.add_keep_model(e if v else z3.Not(e))
        self.decided[eid] = v
        self._keep.append(e)
        if z3.is_not(e):
            self.decided[e.arg(0).get_id()] = not v
        return v

    def choose(self, n, tag="choice"):
        """Nondeterministic choice of an index in range(n) (environment stub): forks n ways."""
        for i in range(n - 1):
            if self.decide(self.fresh_bool(f"{tag}!").e):
                return i
        return n - 1


class Obl:
    """One proof obligation of a path.

    realize: optional callable(model) -> JSON-able replay case (inputs for the real build);
    known:   optional list of (finding_id, region) -- `region` is a formula over the inputs that
             characterises a recorded known finding; the solver is asked for a violation OUTSIDE
             every known region first, so a different violation of the same obligation is still
             reported as new.
    """
    __slots__ = ("name", "e", "realize", "known")

    def __init__(self, name, e, realize=None, known=None):
        self.name = name
        self.e = lb(e) if not isinstance(e, bool) else z3.BoolVal(e)
        self.realize = realize
        self.known = known or []


def model_to_dict(m, limit=200):
    out = {}
    if m is None:
        return out
    for d in m.decls()[:limit]:
        if d.arity() != 0:
            continue
        v = m[d]
        try:
            if z3.is_rational_value(v) or z3.is_int_value(v):
                fr = v.as_fraction()
                out[d.name()] = str(fr)
            elif z3.is_true(v) or z3.is_false(v):
                out[d.name()] = bool(z3.is_true(v))
            elif z3.is_algebraic_value(v):
                out[d.name()] = str(v.approx(12).as_fraction())
            else:
                out[d.name()] = str(v)
        except Exception:
            out[d.name()] = str(v)
    return out


def mval(m, x):
    """Value of a term / SymNum / number under a model, as a Fraction (model completion on)."""
    if isinstance(x, (int, fractions.Fraction)):
        return fractions.Fraction(x)
    if isinstance(x, numbers.Real) and not isinstance(x, SymNum):
        return fractions.Fraction(float(x))
    v = m.eval(lift(x), model_completion=True)
    if z3.is_algebraic_value(v):
        v = v.approx(20)
    return v.as_fraction()


class Result:
    def __init__(self):
        self.paths = 0
        self.aborted = 0
        self.cuts = {}
        self.inconclusive = {}
        self.obligations = 0
        self.discharged = 0
        self.by_solver = 0          # obligations that needed a solver call (not constant after simplify)
        self.nontrivial_paths = 0
        self.queries = 0
        self.solver_s = 0.0
        self.unknown = 0
        self.decisions = 0
        self.sym_decisions = 0
        self.violations = []        # dicts: name, prefix, model, info
        self.samples = []
        self.truncated = False
        self.obl_names = {}
        self.reached = 0
        self.exceptions = {}
        self.exc_samples = []

    def merge(self, o):
        for k in ("paths", "aborted", "obligations", "discharged", "by_solver", "nontrivial_paths",
                  "queries", "unknown", "decisions", "sym_decisions"):
            setattr(self, k, getattr(self, k) + getattr(o, k))
        self.solver_s += o.solver_s
        for k, v in o.cuts.items():
            self.cuts[k] = self.cuts.get(k, 0) + v
        for k, v in o.inconclusive.items():
            self.inconclusive[k] = self.inconclusive.get(k, 0) + v
        for k, v in o.obl_names.items():
            self.obl_names[k] = self.obl_names.get(k, 0) + v
        self.violations += o.violations
        self.samples = (self.samples + o.samples)[:6]
        self.truncated = self.truncated or o.truncated

    def to_json(self):
        d = dict(self.__dict__)
        return d


def explore(harness, *, max_paths=200000, timeout_ms=15000, seed=0, max_violations=12,
            deadline=None, on_violation=None, prefixes=None, stop_when_pending=None, path_alarm_s=None):
    """Depth-first exploration of `harness(ctx) -> list[Obl]`.

    Each returned obligation is checked against the final path condition.  Returns a Result.
    """
    res = Result()
    work = [list(p) for p in (prefixes if prefixes is not None else [[]])]
    res.pending_prefixes = []
    while work:
        if res.paths >= max_paths or (deadline is not None and time.time() > deadline):
            res.truncated = True
            break
        if stop_when_pending is not None and res.paths >= 1 and len(work) >= stop_when_pending:
            res.pending_prefixes = [list(p) for p in work]     # handed to other workers (decision-tree split)
            work = []
            break
        prefix = work.pop(0) if stop_when_pending is not None else work.pop()
        ctx = Ctx(prefix, timeout_ms=timeout_ms, seed=seed)
        Ctx.cur = ctx
        obls = None
        _pyrandom.seed(20260927)      # the stdlib generator (used by the library's construction-time self-check) is replayed identically on every path
        _old_handler = None
        if path_alarm_s:
            import signal as _signal

            def _on_alarm(signum, frame):
                raise PathTimeout()
            try:
                _old_handler = _signal.signal(_signal.SIGALRM, _on_alarm)
                _signal.setitimer(_signal.ITIMER_REAL, float(path_alarm_s))
            except ValueError:          # not in the main thread: no watchdog
                _old_handler = None
        try:
            obls = harness(ctx)
        except PathTimeout:
            # the code under test did not come back on inputs that satisfy every assumption made so far: a candidate violation of
            # "terminates", confirmed (or not) by the replay on the real build under an alarm
            name = "terminates(within the per-path limit)"
            res.exceptions[name] = res.exceptions.get(name, 0) + 1
            obls = [Obl(name, False, realize=ctx.notes.get("realize"))]
        except PathAbort:
            res.aborted += 1
        except Cut as c:
            res.cuts[c.what] = res.cuts.get(c.what, 0) + 1
        except Inconclusive as u:
            res.inconclusive[u.what] = res.inconclusive.get(u.what, 0) + 1
        except RecursionError:
            res.inconclusive["recursion"] = res.inconclusive.get("recursion", 0) + 1
        except Exception as ex:     # noqa: BLE001
            # the code under test raised on inputs that satisfy every assumption made so far
            name = "no-exception:" + type(ex).__name__ + "@" + _where(ex)
            res.exceptions[name] = res.exceptions.get(name, 0) + 1
            if len(res.exc_samples) < 3:
                import traceback as _tb
                res.exc_samples.append("".join(_tb.format_exception(type(ex), ex, ex.__traceback__))[-1500:])
            obls = [Obl(name, False, realize=ctx.notes.get("realize"), known=ctx.notes.get("known_exc"))]
        finally:
            if path_alarm_s and _old_handler is not None:
                import signal as _signal
                _signal.setitimer(_signal.ITIMER_REAL, 0)
                _signal.signal(_signal.SIGALRM, _old_handler)
            Ctx.cur = None
        work.extend(ctx.work)
        res.paths += 1
        if obls is not None:
            _discharge(ctx, obls, res, prefix, max_violations)
        st = ctx.stats
        res.queries += st["queries"]
        res.solver_s += st["solver_s"]
        res.unknown += st["unknown"]
        res.decisions += st["decisions"]
        res.sym_decisions += st["sym_decisions"]
    res.pending = len(work)
    return res


def _robust_model(ctx, o, e, m, known_id):
    """Prefer a counterexample whose inputs are multiples of 1/64 in [-1024, 1024] (exact in
    float32, so the replay on the real build is not at the mercy of rounding)."""
    prefer = ctx.notes.get("fp_prefer")
    if prefer:
        # IEEE mode: prefer a counterexample whose scale parameters are of ordinary magnitude (any model reproduces bit for bit)
        extra = [z3.Not(e)]
        if o.known:
            regs = z3.Or(*[lb(r) for _, r in o.known])
            extra.append(regs if known_id is not None else z3.Not(regs))
        for x, lo, hi in prefer:
            srt = x.e.sort()
            extra += [z3.fpGEQ(x.e, z3.FPVal(lo, srt)), z3.fpLEQ(x.e, z3.FPVal(hi, srt))]
        r, m2 = ctx.check(*extra, want_model=True, timeout_ms=20000)
        if r == "unknown":
            ctx.stats["unknown"] -= 1
        return m2 if r == "sat" else m
    inputs = ctx.notes.get("inputs")
    if not inputs:
        return m
    base = [z3.Not(e)]
    if o.known:
        regs = z3.Or(*[lb(r) for _, r in o.known])
        base.append(regs if known_id is not None else z3.Not(regs))
    scales = ctx.notes.get("scales") or []
    # attempt 1: multiples of 1/8 in [-64, 64], scale parameters (delta_empty, alpha ...) in [1/2, 8]
    # attempt 2: multiples of 1/64 in [-1024, 1024]
    for den, lim, with_scales in ((8, 512, True), (64, 65536, True), (64, 65536, False)):
        extra = list(base)
        for i, x in enumerate(inputs):
            k = z3.Int(f"rob!{i}")
            extra += [lift(x) * den == z3.ToReal(k), k >= -lim, k <= lim]
        if with_scales:
            for x in scales:
                extra += [lift(x) >= _rv(fractions.Fraction(1, 2)), lift(x) <= 8]
        r, m2 = ctx.check(*extra, want_model=True, timeout_ms=2500)
        if r == "sat":
            return m2
        if r == "unknown":
            ctx.stats["unknown"] -= 1       # a failed search for a nicer model is not an inconclusive verdict
    return m


def _record_violation(ctx, o, e, m, res, max_violations):
    known_id = None
    if o.known:
        regions = [lb(r) for _, r in o.known]
        r2, m2 = ctx.check(z3.Not(e), z3.Not(z3.Or(*regions)), want_model=True)
        if r2 == "sat":
            m = m2                      # a violation outside every known region: new
        elif r2 == "unsat":
            for fid, r in o.known:
                if z3.is_true(m.eval(lb(r), model_completion=True)):
                    known_id = fid
                    break
            else:
                known_id = o.known[0][0]
        else:
            res.inconclusive["unknown-known-region:" + o.name] = \
                res.inconclusive.get("unknown-known-region:" + o.name, 0) + 1
            return
    same = [v for v in res.violations if v["name"] == o.name and v["known"] == known_id]
    if len(res.violations) >= max_violations and same:
        for v in same:
            v["count"] += 1
            break
        return
    if len(same) >= 3:
        same[0]["count"] += 1
        return
    m = _robust_model(ctx, o, e, m, known_id)
    case = None
    if o.realize is not None:
        try:
            case = o.realize(m)
        except Exception as ex:     # noqa: BLE001 - a failing realiser must not hide the violation
            case = dict(realize_error=repr(ex))
    res.violations.append(dict(name=o.name, known=known_id, count=1, decisions=[bool(b) for b in ctx.trace[:64]],
                               model=model_to_dict(m), case=case))


def _where(ex):
    tb = ex.__traceback__
    last = "?"
    while tb is not None:
        f = tb.tb_frame.f_code
        if "pygamma_agreement" in f.co_filename:
            last = f.co_name
        tb = tb.tb_next
    return last


def _discharge(ctx, obls, res, prefix, max_violations):
    if obls:
        try:
            ctx.get_model()
            res.reached += 1            # reachability witness: pc is satisfiable where obligations are posed
        except (PathAbort, Inconclusive):
            return
    todo = []
    used_solver = False
    for o in obls:
        res.obligations += 1
        res.obl_names[o.name.split("[")[0]] = res.obl_names.get(o.name.split("[")[0], 0) + 1
        e = z3.simplify(o.e)
        if z3.is_true(e):
            res.discharged += 1
            continue
        todo.append((o, e))
    if todo:
        used_solver = True
        conj = z3.And(*[e for _, e in todo]) if len(todo) > 1 else todo[0][1]
        r, m = ctx.check(z3.Not(conj), want_model=True)
        if r == "unsat":
            res.discharged += len(todo)
            res.by_solver += len(todo)
        else:
            for o, e in todo:
                r1, m1 = ctx.check(z3.Not(e), want_model=True)
                if r1 == "unsat":
                    res.discharged += 1
                    res.by_solver += 1
                elif r1 == "sat":
                    _record_violation(ctx, o, e, m1, res, max_violations)
                else:
                    res.inconclusive["unknown-obligation:" + o.name] = \
                        res.inconclusive.get("unknown-obligation:" + o.name, 0) + 1
    if ctx.stats["sym_decisions"] > 0 and used_solver:
        res.nontrivial_paths += 1
    if len(res.samples) < 3 and obls:
        try:
            pc = [str(a)[:160] for a in ctx.solver.assertions()[:8]]
        except Exception:
            pc = []
        res.samples.append(dict(decisions=[bool(b) for b in ctx.trace[:24]], path_condition_head=pc,
                                obligations=[o.name for o in obls[:10]]))
