"""symx.fp -- IEEE-754 mode of the executor: symbolic binary32 / binary64 numbers (z3 FloatingPoint terms).

The default mode of symx treats every float as a real number, which is what makes the alignment pipeline tractable, and
which cannot see a change that is right over the reals and wrong only after rounding.  For a few *small* kernels (a
handful of additions / multiplications and comparisons per path) the same real source is executed a second time on
`SymFP` values: every operation is the IEEE operation (round-to-nearest-even) of the width numba / CPython gives it, a
comparison forks like any other branch, and a counterexample is a tuple of concrete floats that reproduces bit for bit
on the real build.

Width rules (the ones numba applies inside the jitted kernels; Python-level code only ever sees binary64 here):
    binary32 (op) binary32 -> binary32        binary32 (op) binary64 -> binary64
    integer  (op) binary32 -> binary64        integer  (op) binary64 -> binary64      (integers are int64)
    Python float constant = binary64
Arguments declared `float32` / `float64` in an explicit `nb.njit(signature)` are converted on entry (symx.build._njit).

Solver use: a context in IEEE mode (`ctx.fp_mode = True`) answers every query with a fresh, non-incremental solver over
the path condition (z3's bit-blasting tactic for QF_FP); the incremental core is an order of magnitude slower on these
queries (probed: 2.5 s against 13 s, n = 5 `unknown` after 120 s).
"""
import fractions
import math
import numbers

import numpy as real_np
import z3

from . import core
from .core import Ctx, SymBool, SymNum, Unsupported

RNE = z3.RNE()
SORTS = {32: z3.Float32(), 64: z3.Float64()}


def _const(x, bits):
    x = float(x)
    if bits == 32:
        x = float(real_np.float32(x))
    return z3.FPVal(x, SORTS[bits])


class SymFP:
    """IEEE binary32 / binary64 value (symbolic or constant)."""
    __slots__ = ("e", "bits")
    __hash__ = lambda self: 0  # noqa: E731
    # numpy scalars defer to this class in mixed arithmetic (np.float32(0) + x reaches __radd__ with the numpy scalar itself, whose
    # width is then known) instead of converting both sides to Python objects
    __array_ufunc__ = None

    def __init__(self, e, bits):
        self.e = e
        self.bits = bits

    # -- construction / conversion
    @staticmethod
    def of(x, bits=None):
        """number -> SymFP (Python / numpy float64 -> binary64, numpy float32 -> binary32, integers -> binary64)"""
        if isinstance(x, SymFP):
            return x if bits in (None, x.bits) else x.to(bits)
        if isinstance(x, SymNum):
            raise Unsupported("real-mode and IEEE-mode values mixed")
        if isinstance(x, real_np.float32):
            b = 32
        elif isinstance(x, (bool, numbers.Integral, numbers.Real)):
            b = 64
        else:
            raise TypeError(type(x))
        v = SymFP(_const(x, b), b)
        return v if bits in (None, b) else v.to(bits)

    def to(self, bits):
        if bits == self.bits:
            return self
        return SymFP(z3.simplify(z3.fpToFP(RNE, self.e, SORTS[bits])), bits)

    def _pair(self, o):
        try:
            o = SymFP.of(o)
        except TypeError:
            return None, None, None
        b = max(self.bits, o.bits)
        return self.to(b).e, o.to(b).e, b

    def _bin(self, o, f, swap=False):
        a, b, bits = self._pair(o)
        if a is None:
            return NotImplemented
        return SymFP(f(b, a) if swap else f(a, b), bits)

    def __add__(self, o): return self._bin(o, lambda a, b: z3.fpAdd(RNE, a, b))
    def __radd__(self, o): return self._bin(o, lambda a, b: z3.fpAdd(RNE, a, b), True)
    def __sub__(self, o): return self._bin(o, lambda a, b: z3.fpSub(RNE, a, b))
    def __rsub__(self, o): return self._bin(o, lambda a, b: z3.fpSub(RNE, a, b), True)
    def __mul__(self, o): return self._bin(o, lambda a, b: z3.fpMul(RNE, a, b))
    def __rmul__(self, o): return self._bin(o, lambda a, b: z3.fpMul(RNE, a, b), True)
    def __truediv__(self, o): return self._bin(o, lambda a, b: z3.fpDiv(RNE, a, b))
    def __rtruediv__(self, o): return self._bin(o, lambda a, b: z3.fpDiv(RNE, a, b), True)

    def __neg__(self): return SymFP(z3.fpNeg(self.e), self.bits)
    def __pos__(self): return self
    def __abs__(self): return SymFP(z3.fpAbs(self.e), self.bits)

    def __pow__(self, o):
        if isinstance(o, numbers.Integral) and 1 <= int(o) <= 4:
            r = self
            for _ in range(int(o) - 1):
                r = r * self
            return r
        raise Unsupported("IEEE-mode power with exponent %r" % (o,))

    def _cmp(self, o, f):
        a, b, _ = self._pair(o)
        if a is None:
            return NotImplemented
        return SymBool(f(a, b))

    def __lt__(self, o): return self._cmp(o, z3.fpLT)
    def __le__(self, o): return self._cmp(o, z3.fpLEQ)
    def __gt__(self, o): return self._cmp(o, z3.fpGT)
    def __ge__(self, o): return self._cmp(o, z3.fpGEQ)

    def __eq__(self, o):
        r = self._cmp(o, z3.fpEQ)
        return SymBool(False) if r is NotImplemented else r

    def __ne__(self, o):
        r = self._cmp(o, z3.fpNEQ)
        return SymBool(True) if r is NotImplemented else r

    def __bool__(self):
        return Ctx.cur.decide(z3.Not(z3.fpIsZero(self.e)))

    def __float__(self):
        raise Unsupported("float() realisation of an IEEE-mode symbolic number")

    def __int__(self):
        raise Unsupported("int() realisation of an IEEE-mode symbolic number")

    def astype(self, dt):
        name = getattr(dt, "name", None) or getattr(dt, "__name__", "")
        return self.to(32) if "32" in str(name) else self.to(64) if "64" in str(name) else self

    def __deepcopy__(self, memo): return self
    def __copy__(self): return self

    def __repr__(self):
        return f"FP{self.bits}({z3.simplify(self.e)})"


def fresh(ctx, base, bits=64, lo=None, hi=None, lo_open=False):
    """a fresh finite IEEE value, optionally within [lo, hi] (lo excluded with lo_open)"""
    k = ctx.names.get(base, 0)
    ctx.names[base] = k + 1
    name = f"{base}{k}" if k or base.endswith("_") else base
    v = z3.FP(name, SORTS[bits])
    ctx.solver.add(z3.Not(z3.fpIsInf(v)), z3.Not(z3.fpIsNaN(v)))
    if lo is not None:
        ctx.solver.add((z3.fpGT if lo_open else z3.fpGEQ)(v, _const(lo, bits)))
    if hi is not None:
        ctx.solver.add(z3.fpLEQ(v, _const(hi, bits)))
    return SymFP(v, bits)


def fpval(m, x):
    """value of a SymFP (or a number) under a model, as a Python float (exact; binary32 values are exact doubles)"""
    if not isinstance(x, SymFP):
        return float(x)
    v = m.eval(x.e, model_completion=True)
    v = z3.simplify(v)
    if z3.is_fp_value(v) or hasattr(v, "isNaN"):
        if v.isNaN():
            return float("nan")
        if v.isInf():
            return float("-inf") if v.isNegative() else float("inf")
        r = z3.simplify(z3.fpToReal(v))
        return float(fractions.Fraction(r.as_fraction()))
    raise Unsupported("IEEE value not constant under the model")


def hexf(x):
    return float(x).hex()


def unhex(s):
    return float.fromhex(s) if isinstance(s, str) else float(s)


def is_finite(x):
    return SymBool(z3.And(z3.Not(z3.fpIsInf(x.e)), z3.Not(z3.fpIsNaN(x.e))))


def njit_coerce(sig_args, args):
    """conversion of scalar arguments to the width an explicit numba signature declares"""
    out = list(args)
    for i, (t, a) in enumerate(zip(sig_args, args)):
        if isinstance(a, SymFP):
            nm = getattr(t, "name", "")
            if nm == "float32":
                out[i] = a.to(32)
            elif nm == "float64":
                out[i] = a.to(64)
    return tuple(out)
