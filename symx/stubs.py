"""symx.stubs -- nondeterministic environment stubs other than the MIP solver.

RNG: every call returns a fresh symbolic value constrained only by the documented contract of the
numpy function, and is logged with its arguments:
    normal(mu, sd)      any real
    uniform(a, b)       a <= v < b   (v == a allowed; numpy's half-open interval)
    random()            0 <= v < 1
    randint(a, b)       integer, a <= v < b
    choice(seq, p)      an element of seq (forks); with p, only elements whose weight is not 0
A per-path draw budget turns unbounded redraw loops into counted cuts.

DeferredExecutor: ThreadPoolExecutor stand-in.  submit() stores the thunk (arguments already
evaluated, as in Python); result() forces it.  `order` lets a harness force pending jobs in an
arbitrary order before results are collected (C06).
"""
import z3

from .core import SymNum, SymBool, Ctx, lift, Cut, Unsupported, concretize


class RNG:
    def __init__(self, ctx, max_draws=40, forbid=False):
        self.ctx = ctx
        self.log = []
        self.max_draws = max_draws
        self.in_job = 0           # >0 while a deferred job runs: an RNG call there is schedule-dependent
        self.calls_in_job = 0
        self.seeded = []
        self.assume_nonzero_weight = True
        self.private_generators = 0     # generators created beside the global state (np.random.default_rng(), RandomState() ...)

    def _reg(self, v):
        """numeric draws are inputs of the path: registered so that counterexample models prefer robust values"""
        self.ctx.notes.setdefault("inputs", [])
        if not any(v is x for x in self.ctx.notes["inputs"]):
            self.ctx.notes["inputs"] = list(self.ctx.notes["inputs"]) + [v]

    def _tick(self, kind):
        if self.in_job:
            self.calls_in_job += 1
        if len(self.log) >= self.max_draws:
            raise Cut("rng-draws>%d" % self.max_draws)

    # a generator of its own (default_rng(), RandomState()): the draws are modelled by the same stub, but the creation is recorded -
    # unless it is seeded from a draw of the global state, its output does not follow np.random.seed (C06 asks for that)
    def default_rng(self, seed=None):
        if seed is None:
            self.private_generators += 1
        return self

    def RandomState(self, seed=None):
        if seed is None:
            self.private_generators += 1
        return self

    Generator = default_rng

    def normal(self, mu=0.0, sd=1.0, size=None):
        self._tick("normal")
        v = self.ctx.fresh("N!")
        self.log.append(("normal", mu, sd, v))
        self._reg(v)
        return v

    def uniform(self, a=0.0, b=1.0, size=None):
        self._tick("uniform")
        v = self.ctx.fresh("U!")
        self.ctx.solver.add(v.e >= lift(a), v.e < lift(b))
        self.ctx.model = None
        self.log.append(("uniform", a, b, v))
        self._reg(v)
        self.ctx.get_model()          # a >= b makes the draw impossible: path abort (numpy would return a..b reversed)
        return v

    def random(self, size=None):
        self._tick("random")
        v = self.ctx.fresh("R!")
        self.ctx.solver.add(v.e >= 0, v.e < 1)
        self.ctx.model = None
        self.log.append(("random", v))
        self._reg(v)
        return v

    def randint(self, a, b=None, size=None):
        self._tick("randint")
        if b is None:
            a, b = 0, a
        v = self.ctx.fresh("I!", integer=True)
        self.ctx.solver.add(v.e >= lift(a), v.e < lift(b))
        self.ctx.model = None
        self.log.append(("randint", a, b, v))
        return concretize(v)

    def choice(self, seq, size=None, replace=True, p=None):
        self._tick("choice")
        seq = list(seq)
        ps = list(p) if p is not None else None
        if not seq:
            raise ValueError("'a' cannot be empty unless no samples are taken")
        if ps is not None and len(ps) != len(seq):
            raise ValueError("'a' and 'p' must have same size")
        i = self.ctx.choose(len(seq), tag="choice")
        if ps is not None and self.assume_nonzero_weight:
            self.ctx.assume(SymBool(lift(ps[i]) != 0) if isinstance(ps[i], SymNum) else bool(ps[i] != 0))
        self.log.append(("choice", seq, ps, i))
        return seq[i]

    def seed(self, s=None):
        self.seeded.append(s)


class Future:
    def __init__(self, ex, fn, args):
        self.ex, self.fn, self.args = ex, fn, args
        self.done = False
        self.val = None
        self.exc = None

    def force(self):
        if self.done:
            return
        rng = self.ex.rng
        if rng is not None:
            rng.in_job += 1
        before = self.ex.monitor() if self.ex.monitor else None
        try:
            self.val = self.fn(*self.args)
        except Exception as e:       # noqa: BLE001
            self.exc = e
        finally:
            if rng is not None:
                rng.in_job -= 1
        if before is not None:
            after = self.ex.monitor()
            if after != before:
                self.ex.shared_writes.append((self.fn.__name__, before, after))
        self.done = True
        self.ex.forced.append(self)

    def result(self, timeout=None):
        # before handing out any result the scheduler may already have run other pending jobs
        self.ex.run_scheduled("result")
        self.force()
        if self.exc is not None:
            raise self.exc
        return self.val


class DeferredExecutor:
    """Factory: DeferredExecutor.make(rng, schedule, monitor) returns a class usable as
    ThreadPoolExecutor(max_workers=...)."""

    @staticmethod
    def make(rng=None, schedule=None, monitor=None, record=None):
        class _Ex:
            instances = record if record is not None else []

            def __init__(self, max_workers=None, **kw):
                self.rng = rng
                self.pending = []
                self.forced = []
                self.monitor = monitor
                self.shared_writes = []
                self.max_workers = max_workers
                _Ex.instances.append(self)

            def __enter__(self):
                return self

            def __exit__(self, *a):
                # leaving the with-block joins every job
                for f in self.pending:
                    f.force()
                return False

            def submit(self, fn, *args, **kw):
                f = Future(self, fn, args)
                self.pending.append(f)
                self.run_scheduled("submit")      # a worker may already run jobs while the main thread goes on
                return f

            def run_scheduled(self, at):
                """force pending jobs as chosen by `schedule(todo, at)`: a callable taking the not-yet-run
                futures and the scheduling point ('submit' / 'result'), returning those to run now, in order"""
                if schedule is None:
                    return
                todo = [f for f in self.pending if not f.done]
                for f in schedule(todo, at):
                    f.force()

        return _Ex


def completion_stubs(schedule=None):
    """`concurrent.futures.as_completed` / `wait` for the deferred futures above: the order in which jobs complete is the
    scheduler's choice (any permutation), exactly like the order in which pending jobs are forced at a `result()`."""
    def as_completed(fs, timeout=None):
        fs = list(fs)
        order = list(schedule(fs, "as_completed")) if schedule is not None else fs
        for f in order:
            f.force()
            yield f

    def wait(fs, timeout=None, return_when="ALL_COMPLETED"):
        fs = list(fs)
        order = list(schedule(fs, "wait")) if schedule is not None else fs
        if return_when == "FIRST_COMPLETED" and order:
            order[0].force()
            return {order[0]} | {f for f in fs if f.done}, {f for f in fs if not f.done}
        for f in order:
            f.force()
        return set(fs), set()
    return dict(as_completed=as_completed, wait=wait)


def install_completion_stubs(module, schedule=None):
    """replaces, in `module`'s namespace and in concurrent.futures itself, the completion-order functions by the stubs;
    returns an undo function"""
    import concurrent.futures as cf
    st = completion_stubs(schedule)
    real = {k: getattr(cf, k) for k in st}
    saved_mod = {}
    for name, val in list(vars(module).items()):
        for k, r in real.items():
            if val is r:
                saved_mod[name] = val
                setattr(module, name, st[k])
    for k in st:
        setattr(cf, k, st[k])

    def undo():
        for k, r in real.items():
            setattr(cf, k, r)
        for name, val in saved_mod.items():
            setattr(module, name, val)
    return undo

