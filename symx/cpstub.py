"""symx.cpstub -- nondeterministic stand-in for cvxpy + the CBC / GLPK back-ends.

It records the objective, the constraint rows and the requested solver *as the repository's
code built them* and returns, as `x.value`, a vector of fresh 0/1-valued symbols constrained
only by the documented contract of a MIP solver:

  (feasibility)  if the captured constraints have a 0/1 solution, `solve` returns and x.value
                 satisfies them; otherwise x.value is None;
  (optimality)   obj(x) <= obj(y) for every 0/1 point y satisfying the captured constraints.

The captured constraint matrix is concrete on a path, so the feasible points are enumerated
concretely (bounded: n <= MAX_VARS) and optimality is a finite conjunction.  When every
objective coefficient is provably >= 0 under the path condition, only inclusion-minimal
feasible points are used (a superset of a feasible point costs at least as much); this is a
*weaker* assumption than full optimality, hence sound.
"""
import itertools

import numpy as real_np
import z3

from .core import SymNum, Ctx, lift, Inconclusive, Unsupported, Cut

CBC = "CBC"
GLPK_MI = "GLPK_MI"
MAX_VARS = 22
MAX_POINTS = 6000


class SolverError(Exception):
    pass


class CaptureDone(BaseException):
    """raised by solve() in capture-only mode once the problem has been recorded"""


class State:
    """Per-path record of what the code under test handed to the solver."""

    def __init__(self):
        self.problems = []      # list of dict(solver=, objective=, constraints=, var=, feasible=, points=)
        self.vars = []
        self.fail_next = []     # exceptions to raise on the next solve() calls (back-end configs)
        self.capture_only = False


STATE = State()


def reset(fail=()):
    global STATE
    STATE = State()
    STATE.fail_next = list(fail)
    return STATE


class Expr:
    """Affine map x -> M x (rows of linear forms over one Variable)."""
    __array_ufunc__ = None
    __hash__ = None

    def __init__(self, var, M):
        self.var = var
        self.M = M          # 2-D object/float array (rows x n)

    def _cmp(self, o, op):
        rhs = o
        return Constraint(self, op, rhs)

    def __eq__(self, o):
        return self._cmp(o, "==")

    def __ge__(self, o):
        return self._cmp(o, ">=")

    def __le__(self, o):
        return self._cmp(o, "<=")

    def rows(self, xs):
        out = []
        for i in range(self.M.shape[0]):
            tot = 0
            for j in range(self.M.shape[1]):
                c = self.M[i, j]
                if isinstance(c, SymNum) or c != 0:
                    tot = tot + c * xs[j]
            out.append(tot)
        return out


class Variable(Expr):
    def __init__(self, shape=(), boolean=False, integer=False, **kw):
        if isinstance(shape, int):
            shape = (shape,)
        (n,) = shape
        self.n = n
        self.boolean = boolean
        self.value = None
        self.var = self
        self.M = None
        self.syms = None
        STATE.vars.append(self)

    def __rmatmul__(self, A):
        A = real_np.asarray(A, dtype=object)
        if A.ndim == 1:
            A = A.reshape(1, -1)
        if A.shape[1] != self.n:
            raise ValueError("shape mismatch in A @ x")
        return Expr(self, A)

    def __matmul__(self, o):
        raise Unsupported("x @ A")


class Constraint:
    def __init__(self, expr, op, rhs):
        self.expr, self.op, self.rhs = expr, op, rhs


class Minimize:
    def __init__(self, e):
        if e.M.shape[0] != 1:
            raise ValueError("objective must be scalar")
        self.expr = e
        self.sense = "min"


class Maximize(Minimize):
    def __init__(self, e):
        super().__init__(e)
        self.sense = "max"


def _sat_row(vals, op, rhs):
    if op == "==":
        return vals == rhs
    if op == ">=":
        return vals >= rhs
    return vals <= rhs


class Problem:
    def __init__(self, objective, constraints=()):
        self.objective = objective
        self.constraints = list(constraints)

    def solve(self, solver=None, **kw):
        ctx = Ctx.cur
        rec = dict(solver=solver, problem=self, options=dict(kw))
        STATE.problems.append(rec)
        if STATE.fail_next:
            exc = STATE.fail_next.pop(0)
            if exc is not None:
                rec["raised"] = type(exc).__name__
                raise exc
        var = self.objective.expr.var
        n = var.n
        rec["n"] = n
        # a variable that is not declared boolean puts the problem outside the 0/1 contract (the solver may then return fractional points,
        # which the caller's threshold silently drops): recorded - the pipeline checks report it - and modelled as boolean beyond that
        rec["boolean"] = bool(var.boolean)
        # concrete constraint rows
        rows = []
        sym_rows = []       # rows with symbolic coefficients or bound (e.g. a bound on the objective): feasibility of a point is a formula
        for c in self.constraints:
            if c.expr.var is not var:
                raise Unsupported("constraint over another variable")
            M = c.expr.M
            if any(isinstance(e, SymNum) for e in M.flat) or isinstance(c.rhs, SymNum):
                sym_rows.append((real_np.array(M, dtype=object), c.op, c.rhs))
                continue
            rows.append((real_np.array(M, dtype=float), c.op, float(c.rhs)))
        rec["symbolic_rows"] = len(sym_rows)
        rec["rows"] = [(M.tolist(), op, rhs) for M, op, rhs in rows]
        rec["objective"] = [self.objective.expr.M[0, j] for j in range(n)]
        rec["sense"] = self.objective.sense
        if STATE.capture_only:
            raise CaptureDone()
        if n > MAX_VARS:
            raise Cut("mip-vars>%d" % MAX_VARS)
        # feasible 0/1 points
        pts = []
        if n == 0:
            feas = all(_sat_row(0.0, op, rhs) for M, op, rhs in rows for _ in range(M.shape[0]))
            pts = [()] if feas else []
        else:
            allp = real_np.array(list(itertools.product((0, 1), repeat=n)), dtype=float)   # 2^n x n
            ok = real_np.ones(len(allp), dtype=bool)
            for M, op, rhs in rows:
                vals = allp @ M.T
                ok &= _sat_row(vals, op, rhs).all(axis=1)
            pts = [tuple(int(v) for v in p) for p in allp[ok]]
        rec["feasible_points"] = len(pts)
        if not pts:
            var.value = None
            return None

        def _cond(p):
            """formula: the 0/1 point p satisfies every symbolic row"""
            cs = []
            for M, op, rhs in sym_rows:
                for i in range(M.shape[0]):
                    tot = z3.RealVal(0)
                    for j in range(n):
                        if p[j]:
                            tot = tot + lift(M[i, j])
                    r = lift(rhs)
                    cs.append(tot == r if op == "==" else (tot >= r if op == ">=" else tot <= r))
            return z3.And(*cs) if cs else z3.BoolVal(True)
        if sym_rows:
            if len(pts) > MAX_POINTS:
                raise Cut("mip-points>%d" % MAX_POINTS)
            # the solver reports "infeasible" exactly when no point satisfies the symbolic rows as well
            if ctx.decide(z3.And(*[z3.Not(_cond(p)) for p in pts])):
                var.value = None
                return None
        coefs = [self.objective.expr.M[0, j] for j in range(n)]
        sense = self.objective.sense
        rec["objective"] = coefs
        rec["sense"] = sense
        # dominance reduction when all coefficients are provably non-negative (minimisation)
        use = pts
        if sense == "min" and len(pts) > 1 and not sym_rows:      # (a dominated point may be the only one a symbolic row lets through)
            nonneg = z3.And(*[lift(c) >= 0 for c in coefs]) if coefs else z3.BoolVal(True)
            r, _ = ctx.check(z3.Not(nonneg))
            if r == "unsat":
                sets = [frozenset(i for i, v in enumerate(p) if v) for p in pts]
                sets.sort(key=len)
                minimal = []
                for s in sets:
                    if not any(m <= s for m in minimal):
                        minimal.append(s)
                use = [tuple(1 if i in s else 0 for i in range(n)) for s in minimal]
                rec["dominance"] = True
        if len(use) > MAX_POINTS:
            raise Cut("mip-points>%d" % MAX_POINTS)
        rec["contract_points"] = len(use)
        xs = [ctx.fresh(f"x{len(STATE.problems) - 1}_", ) for _ in range(n)]
        var.syms = xs
        for v in xs:
            ctx.solver.add(z3.Or(v.e == 0, v.e == 1))
        # feasibility of the returned point
        for M, op, rhs in rows:
            for i in range(M.shape[0]):
                tot = z3.RealVal(0)
                for j in range(n):
                    if M[i, j] != 0:
                        tot = tot + lift(float(M[i, j])) * xs[j].e
                r = lift(rhs)
                ctx.solver.add(tot == r if op == "==" else (tot >= r if op == ">=" else tot <= r))
        for M, op, rhs in sym_rows:
            for i in range(M.shape[0]):
                tot = z3.RealVal(0)
                for j in range(n):
                    tot = tot + z3.If(xs[j].e == 1, lift(M[i, j]), z3.RealVal(0))
                r = lift(rhs)
                ctx.solver.add(tot == r if op == "==" else (tot >= r if op == ">=" else tot <= r))
        # optimality (among the points that satisfy the symbolic rows too)
        obj = z3.RealVal(0)
        for j in range(n):
            obj = obj + (z3.If(xs[j].e == 1, lift(coefs[j]), z3.RealVal(0)) if sym_rows else lift(coefs[j]) * xs[j].e)
        for p in use:
            val = z3.RealVal(0)
            for j in range(n):
                if p[j]:
                    val = val + lift(coefs[j])
            better = obj <= val if sense == "min" else obj >= val
            ctx.solver.add(z3.Implies(_cond(p), better) if sym_rows else better)
        ctx.model = None
        var.value = real_np.array(xs, dtype=object)
        rec["obj_term"] = SymNum(obj)
        return SymNum(obj)


def feasible_set(rec):
    """All 0/1 points satisfying the captured rows of a solved problem record (for C08)."""
    n = rec["n"]
    allp = real_np.array(list(itertools.product((0, 1), repeat=n)), dtype=float)
    ok = real_np.ones(len(allp), dtype=bool)
    for M, op, rhs in rec["rows"]:
        M = real_np.array(M, dtype=float)
        vals = allp @ M.T
        ok &= _sat_row(vals, op, rhs).all(axis=1)
    return {tuple(int(v) for v in p) for p in allp[ok]}
