"""symx.build -- the "symbolic build" of /repo/pygamma_agreement.

The repository's modules are imported from the *current working tree* (REPO, default /repo)
with
  * `numba` replaced by a stand-in whose `njit` is the identity, so every compiled kernel runs
    as the plain Python function it is written as;
  * the name `np` inside the repository's modules replaced by a thin facade over real numpy in
    which float arrays are `dtype=object` arrays (they then carry symbolic numbers through
    `@`, `/=`, `np.sum`, slicing ...), with symbolic-aware `abs/min/max/mean/sum/std/ceil/int8/...`;
  * the builtins `min/max/abs/int/float/range/round` replaced, as module globals of the
    repository's modules only, by symbolic-aware versions (symx.core);
  * pyannote's `Segment` given a constant hash and a constant repr (so that real sets / dicts /
    SortedSets fall back on `==`, which forks on symbolic coordinates).
Nothing under /repo is edited.
"""
import importlib
import os
import sys
import types
import warnings

import z3

import numpy as real_np

from . import core
from .core import SymNum, SymBool, Ctx, lift, Unsupported, Cut

REPO = os.environ.get("VERIF_REPO", "/repo")
MODULES = ["numba_utils", "dissimilarity", "continuum", "alignment", "sampler", "cst", "cli_apps"]


# --------------------------------------------------------------------------------------
# fake numba
# --------------------------------------------------------------------------------------
class _T:
    def __init__(self, name="t", args=()):
        self.name = name
        self.args = args

    def __call__(self, *a, **k):
        return _T(self.name + "()", a)

    def __getitem__(self, k):
        return _T(self.name + "[]")

    def __getattr__(self, k):
        if k.startswith("__"):
            raise AttributeError(k)
        return _T(self.name + "." + k)


def _njit(*a, **k):
    if len(a) == 1 and callable(a[0]) and not isinstance(a[0], _T):
        return a[0]
    sig = a[0] if a and isinstance(a[0], _T) else None
    if sig is not None and any(getattr(t, "name", "") in ("float32", "float64") for t in sig.args):
        # an explicit signature with scalar float arguments: IEEE-mode values are converted to the declared width on entry
        # (real-mode values pass through untouched)
        import functools
        from . import fp as _fp

        def deco(f):
            @functools.wraps(f)
            def g(*args):
                if any(isinstance(x, _fp.SymFP) for x in args):
                    args = _fp.njit_coerce(sig.args, args)
                return f(*args)
            return g
        return deco
    return lambda f: f


class TypedList(list):
    pass


def install_fake_numba():
    nb = types.ModuleType("numba")
    nb.njit = _njit
    nb.jit = _njit
    for n in "float32 float64 int8 int16 int32 int64 boolean".split():
        setattr(nb, n, _T(n))
    nb.types = _T("types")
    typed = types.ModuleType("numba.typed")
    typed.List = TypedList
    nb.typed = typed
    nb.__version__ = "0.0-symx"
    sys.modules["numba"] = nb
    sys.modules["numba.typed"] = typed
    return nb


# --------------------------------------------------------------------------------------
# numpy facade
# --------------------------------------------------------------------------------------
FLOAT_DT = {real_np.float32, real_np.float64, float, "float32", "float64"}


def _has_sym(x):
    if isinstance(x, (SymNum, SymBool)):
        return True
    if isinstance(x, real_np.ndarray):
        return x.dtype == object and any(isinstance(e, (SymNum, SymBool)) for e in x.flat)
    if isinstance(x, (list, tuple)):
        return any(_has_sym(e) for e in x)
    return False


class SymRandomUnset:
    def __getattr__(self, k):
        raise Unsupported("np.random.%s used without an RNG stub" % k)


class NumpyFacade:
    """Facade installed as `np` in the repository's modules."""

    def __init__(self):
        self.random = real_np.random      # harnesses replace this by an RNG stub
        self.ceil_max = 6
        self.std_calls = []
        self.int8_mode = "wrap"

    def __getattr__(self, k):
        return getattr(real_np, k)

    # -- array construction: float arrays carry objects
    int_as_object = False      # harness switch: integer arrays also carry objects (symbolic counters)

    def _dt(self, dtype):
        if isinstance(dtype, _DT):
            return object if (dtype.kind == "f" or self.int_as_object) else dtype.real
        try:
            if dtype in FLOAT_DT:
                return object
        except TypeError:
            pass
        return dtype

    def empty(self, shape, dtype=None):
        if dtype is None:
            return real_np.empty(shape)          # np.empty(n).astype(int16) in the kernel
        a = real_np.empty(shape, dtype=self._dt(dtype))
        if a.dtype == object:
            a[...] = UNINIT
        return a

    def zeros(self, shape, dtype=None):
        if dtype is None or self._dt(dtype) is object:
            a = real_np.empty(shape, dtype=object)
            a[...] = 0
            return a
        return real_np.zeros(shape, dtype=dtype)

    def ones(self, shape, dtype=None):
        if dtype is None or self._dt(dtype) is object:
            a = real_np.empty(shape, dtype=object)
            a[...] = 1
            return a
        return real_np.ones(shape, dtype=dtype)

    def eye(self, n):
        a = real_np.empty((n, n), dtype=object)
        a[...] = 0
        for i in range(n):
            a[i, i] = 1
        return a

    def array(self, x, dtype=None, **kw):
        if dtype is not None and self._dt(dtype) is object:
            if not isinstance(x, real_np.ndarray):
                x = list(x)
            if not _has_sym(x):
                try:    # same conversions (and errors) as the real float array, then carried as objects
                    return real_np.array(x, dtype=float).astype(object)
                except TypeError:
                    pass
            return real_np.array(x, dtype=object)
        if dtype is None:
            if isinstance(x, (list, tuple)) or hasattr(x, "__iter__") and not isinstance(x, real_np.ndarray):
                x = list(x)
            if _has_sym(x):
                return real_np.array(x, dtype=object)
            try:
                return real_np.array(x, **kw)
            except Exception:
                return real_np.array(x, dtype=object)
        return real_np.array(x, dtype=dtype, **kw)

    def asarray(self, x, dtype=None):
        return self.array(x, dtype=dtype)

    # -- scalar casts (objects usable both as cast functions and as dtypes: they carry `.dtype`)
    float32 = None
    float64 = None
    int8 = None
    int16 = None
    int32 = None
    int64 = None

    # -- elementwise / reductions
    def abs(self, x):
        if isinstance(x, real_np.ndarray) and x.dtype == object:
            return real_np.array([abs(e) for e in x.flat], dtype=object).reshape(x.shape)
        return abs(x)

    def sum(self, x, *a, **k):
        if isinstance(x, real_np.ndarray) and x.dtype != object:
            return real_np.sum(x, *a, **k)
        xs = list(x.flat) if isinstance(x, real_np.ndarray) else list(x)
        if not _has_sym(xs):
            try:
                return real_np.sum(real_np.array(xs, dtype=float)) if not all(
                    isinstance(e, (int, real_np.integer)) for e in xs) else sum(int(e) for e in xs)
            except (TypeError, ValueError):
                pass
        tot = 0
        for e in xs:
            tot = tot + e
        return tot

    def mean(self, x, *a, **k):
        xs = list(x.flat) if isinstance(x, real_np.ndarray) else list(x)
        if not _has_sym(xs):
            return real_np.mean(real_np.array(xs, dtype=float))
        tot = 0
        for e in xs:
            tot = tot + e
        return tot / len(xs)

    def average(self, x, *a, **k):
        return self.mean(x)

    def std(self, x, *a, **k):
        xs = list(x.flat) if isinstance(x, real_np.ndarray) else list(x)
        if not _has_sym(xs):
            return real_np.std(real_np.array(xs, dtype=float))
        ctx = Ctx.cur
        s = ctx.fresh("sd!", lo=0)
        # contract of numpy: sd >= 0 and sd*sd == population variance
        n = len(xs)
        m = self.mean(xs)
        var = 0
        for e in xs:
            var = var + (e - m) * (e - m)
        var = var / n
        if self.std_exact:
            ctx.solver.add((s * s).e == lift(var))
        self.std_calls.append((xs, s))
        ctx.model = None
        return s

    std_exact = False

    def min(self, x, *a, **k):
        xs = list(x.flat) if isinstance(x, real_np.ndarray) else list(x)
        if not _has_sym(xs):
            return real_np.min(x, *a, **k)
        return core.s_min(xs)

    def max(self, x, *a, **k):
        xs = list(x.flat) if isinstance(x, real_np.ndarray) else list(x)
        if not _has_sym(xs):
            return real_np.max(x, *a, **k)
        return core.s_max(xs)

    def maximum(self, a, b):
        if _has_sym([a, b]):
            return core.s_max(a, b)
        return real_np.maximum(a, b)

    def minimum(self, a, b):
        if _has_sym([a, b]):
            return core.s_min(a, b)
        return real_np.minimum(a, b)

    def ceil(self, x):
        if isinstance(x, SymNum):
            # bounded threshold case split keeps every query in pure real arithmetic
            ctx = Ctx.cur
            for k in range(0, self.ceil_max + 1):
                if ctx.decide(x.e <= k):
                    if k > 0 or ctx.decide(x.e > -1):
                        return real_np.float64(k)
                    raise Cut("ceil<0")
            raise Cut("ceil>%d" % self.ceil_max)
        return real_np.ceil(x)

    def where(self, cond, *a):
        if isinstance(cond, real_np.ndarray) and cond.dtype == object:
            cond = real_np.array([bool(c) for c in cond.flat], dtype=bool).reshape(cond.shape)
        return real_np.where(cond, *a)

    def argsort(self, x, *a, **k):
        if _has_sym(x):
            raise Unsupported("argsort on symbolic values")
        return real_np.argsort(x, *a, **k)

    def argmin(self, x, *a, **k):
        if _has_sym(x):
            raise Unsupported("argmin on symbolic values")
        return real_np.argmin(x, *a, **k)

    def log2(self, x):
        if _has_sym(x):
            raise Unsupported("log2 on symbolic values")
        return real_np.log2(x)


class _DT:
    """np.float32 / np.int8 ... of the facade: a cast when called, a dtype when passed as one."""

    def __init__(self, name, kind):
        self.name = name
        self.kind = kind
        self.real = getattr(real_np, name)
        self.dtype = real_np.dtype(object) if kind == "f" else real_np.dtype(name)

    def __call__(self, x=0):
        if isinstance(x, SymNum):
            if self.name == "int8":
                # C cast to a signed byte: two's-complement wrap for every integral value
                import z3
                xi = z3.ToInt(x.e)
                return SymNum(z3.ToReal((xi + 128) % 256 - 128))
            return x
        if isinstance(x, SymBool):
            return core.s_float(x)
        if self.name == "int8":
            v = int(x)
            return ((v + 128) % 256) - 128
        return self.real(x)

    def __eq__(self, o):
        return o is self or o is self.real or (isinstance(o, _DT) and o.name == self.name)

    def __hash__(self):
        return hash(self.name)

    def __repr__(self):
        return "facade." + self.name


for _n, _k in (("float32", "f"), ("float64", "f"), ("int8", "i"), ("int16", "i"), ("int32", "i"), ("int64", "i")):
    setattr(NumpyFacade, _n, _DT(_n, _k))


class _Uninit:
    """Marker stored in fresh `np.empty` float arrays.  Uninitialised memory holds an arbitrary
    value: any arithmetic or comparison on the marker yields a fresh unconstrained symbol, so a
    result that depends on it cannot satisfy a value obligation for all models."""

    def _v(self):
        return Ctx.cur.fresh("garbage!")

    def __add__(self, o): return self._v() + o
    def __radd__(self, o): return o + self._v()
    def __sub__(self, o): return self._v() - o
    def __rsub__(self, o): return o - self._v()
    def __mul__(self, o): return self._v() * o
    def __rmul__(self, o): return o * self._v()
    def __truediv__(self, o): return self._v() / o
    def __rtruediv__(self, o): return o / self._v()
    def __lt__(self, o): return self._v() < o
    def __le__(self, o): return self._v() <= o
    def __gt__(self, o): return self._v() > o
    def __ge__(self, o): return self._v() >= o
    def __eq__(self, o): return o is self or (self._v() == o)
    def __ne__(self, o): return not (o is self) and (self._v() != o)
    __hash__ = lambda self: 0

    def __repr__(self):
        return "<uninit>"


UNINIT = _Uninit()


# --------------------------------------------------------------------------------------
# loading
# --------------------------------------------------------------------------------------
_LOADED = None


def load(symbolic=True):
    """Import the repository's modules from REPO as a symbolic build; returns a namespace."""
    global _LOADED
    if _LOADED is not None:
        return _LOADED
    warnings.filterwarnings("ignore")
    install_fake_numba()
    if REPO in sys.path:
        sys.path.remove(REPO)
    sys.path.insert(0, REPO)
    for k in [k for k in sys.modules if k == "pygamma_agreement" or k.startswith("pygamma_agreement.")]:
        del sys.modules[k]
    ns = types.SimpleNamespace()
    pkg = importlib.import_module("pygamma_agreement")
    src = os.path.realpath(os.path.dirname(pkg.__file__))
    want = os.path.realpath(os.path.join(REPO, "pygamma_agreement"))
    if src != want:
        raise RuntimeError(f"pygamma_agreement imported from {src}, expected {want}")
    ns.pkg = pkg
    facade = NumpyFacade()
    ns.np = facade
    ns.real_np = real_np
    for m in MODULES:
        try:
            mod = importlib.import_module("pygamma_agreement." + m)
        except Exception as ex:     # noqa: BLE001
            if m == "cli_apps":
                mod = None
            else:
                raise
        setattr(ns, m, mod)
        if mod is None:
            continue
        if symbolic:
            if hasattr(mod, "np"):
                mod.np = facade
            if hasattr(mod, "numpy"):
                mod.numpy = facade
            for k, v in core.BUILTIN_OVERRIDES.items():
                setattr(mod, k, v)
    # pyannote Segment: constant hash (set/dict fall back on ==), constant repr
    import pyannote.core.segment as pseg
    from pyannote.core import Segment
    ns.Segment = Segment
    ns.pseg = pseg
    if symbolic:
        Segment.__hash__ = lambda self: 0

        def _tid(x):
            if not isinstance(x, SymNum):
                return repr(float(x))
            e = z3.simplify(x.e)
            return repr(float(e.as_fraction())) if z3.is_rational_value(e) else "t%d" % e.get_id()

        def _seg_repr(self):
            """ideal (lossless) rendering: two segments render the same iff they are equal by value.  Segments are compared,
            with the comparisons the repository's own by-value equality makes (start, then end), against the segments
            rendered so far on this path; this forks only where that equality is still undecided.  The lossy real
            rendering (%g, six significant digits) is covered by a concrete cross-check in C17."""
            key = (_tid(self.start), _tid(self.end))
            if not (isinstance(self.start, SymNum) or isinstance(self.end, SymNum)):
                return "<Segment(%s, %s)>" % key
            classes = Ctx.cur.notes.setdefault("repr_classes", [])
            for k2, rep, tok in classes:
                if k2 == key or (bool(self.start == rep.start) and bool(self.end == rep.end)):
                    return tok
            tok = "<Segment(%s, %s)>" % key
            classes.append((key, self, tok))
            return tok
        Segment.__repr__ = _seg_repr
        Segment.__str__ = _seg_repr
    ns.co = ns.continuum
    ns.ds = ns.dissimilarity
    ns.al = ns.alignment
    ns.sa = ns.sampler
    ns.nu = ns.numba_utils
    ns.files = {m: os.path.join(want, m + ".py") for m in MODULES}
    _LOADED = ns
    return ns


def functions_entered(fn, *a, **k):
    """Run fn under a tracer; return (result, sorted list of repo functions entered)."""
    seen = set()
    root = os.path.realpath(os.path.join(REPO, "pygamma_agreement"))

    def tracer(frame, event, arg):
        if event == "call":
            f = frame.f_code.co_filename
            if f.startswith(root):
                seen.add(f"{os.path.basename(f)}:{frame.f_code.co_name}")
        return None

    old = sys.gettrace()
    sys.settrace(tracer)
    try:
        r = fn(*a, **k)
    finally:
        sys.settrace(old)
    return r, sorted(seen)
